//go:build verif

package resp

import (
	"os"

	"github.com/innovationb1ue/RedisGO/config"
	"github.com/innovationb1ue/RedisGO/logger"
)

func vfNativeSetup() {
	dir, _ := os.MkdirTemp("", "vflog")
	cfg := &config.Config{ShardNum: 2, LogDir: dir, LogLevel: "panic", Databases: 4}
	config.Configures = cfg
	_ = logger.SetUp(cfg)
	logger.Disable()
}

func bs(s string) []byte { return []byte(s) }
