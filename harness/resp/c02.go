//go:build verif

package resp

// C02: RESP request decoding is exact, binary-safe and independent of how the byte stream is split
// into reads; malformed input never crashes the parser and nothing after the malformed part is
// delivered as a command.

import (
	"context"
	"io"
)

// c02Feed writes the stream to the connection in chunks cut at the given positions, then EOF.
func c02Feed(conn *vfConn, stream []byte, cuts []int) {
	prev := 0
	for _, c := range cuts {
		if c > prev && c < len(stream) {
			conn.In <- stream[prev:c]
			prev = c
		}
	}
	if prev < len(stream) {
		conn.In <- stream[prev:]
	}
	close(conn.In)
}

type c02Out struct {
	cmds [][][]byte
	errs int
	eof  bool
	// kinds of delivered non-array values
	other int
}

func c02Collect(ch <-chan *ParsedRes, max int) c02Out {
	var o c02Out
	for i := 0; i < max; i++ {
		r, ok := <-ch
		if !ok {
			return o
		}
		if r.Err != nil {
			if r.Err == io.EOF {
				o.eof = true
				return o
			}
			o.errs++
			continue
		}
		if a, isArr := r.Data.(*ArrayData); isArr {
			o.cmds = append(o.cmds, a.ToCommand())
		} else {
			o.other++
		}
	}
	return o
}

// well-formed pipelined commands, symbolic argument bytes, every split of the stream into 1..3 reads
func c02Roundtrip(ncmds, maxArgs, maxLen int, twoCuts bool) {
	var want [][][]byte
	var stream []byte
	n := 1 + vfChoice("ncmds", ncmds)
	for c := 0; c < n; c++ {
		na := 1 + vfChoice("nargs"+string(rune('0'+c)), maxArgs)
		var args [][]byte
		for a := 0; a < na; a++ {
			args = append(args, vfBytes("c"+string(rune('0'+c))+"a"+string(rune('0'+a)), 0, maxLen))
		}
		want = append(want, args)
		stream = append(stream, vfEncode(args...)...)
	}
	cuts := []int{vfChoice("cut1", len(stream))}
	if twoCuts {
		cuts = append(cuts, cuts[0]+vfChoice("cut2", len(stream)-cuts[0]))
	}
	conn := vfNewConn("P", false)
	ch := ParseStream(context.Background(), conn)
	vfSpawn(func() { c02Feed(conn, stream, cuts) })
	got := c02Collect(ch, n+3)
	vfAssert(got.errs == 0 && got.other == 0, "wellformed-stream-no-error")
	vfAssert(len(got.cmds) == n, "wellformed-stream-command-count")
	for c := 0; c < n && c < len(got.cmds); c++ {
		vfAssert(len(got.cmds[c]) == len(want[c]), "wellformed-stream-argument-count")
		for a := range want[c] {
			vfAssert(vfBytesEq(got.cmds[c][a], want[c][a]), "wellformed-stream-argument-bytes")
		}
	}
	vfAssert(got.eof, "wellformed-stream-ends-with-eof")
}

func VF_C02_roundtrip_quick()    { c02Roundtrip(2, 2, 2, false) }
func VF_C02_roundtrip_thorough() { c02Roundtrip(2, 3, 2, true) }

// nil bulk inside an array, empty array, null array
func VF_C02_special_values() {
	conn := vfNewConn("P", false)
	ch := ParseStream(context.Background(), conn)
	stream := []byte("*2\r\n$0\r\n\r\n$1\r\nx\r\n*0\r\n*1\r\n$0\r\n\r\n")
	cut := vfChoice("cut", len(stream))
	vfSpawn(func() { c02Feed(conn, stream, []int{cut}) })
	got := c02Collect(ch, 8)
	vfAssert(got.errs == 0 && got.eof, "special-values-no-error")
	vfAssert(len(got.cmds) == 3, "special-values-count")
	if len(got.cmds) == 3 {
		vfAssert(len(got.cmds[0]) == 2 && got.cmds[0][0] != nil && len(got.cmds[0][0]) == 0 && string(got.cmds[0][1]) == "x", "special-empty-bulk-in-array")
		vfAssert(len(got.cmds[1]) == 0, "special-empty-array")
		vfAssert(len(got.cmds[2]) == 1 && got.cmds[2][0] != nil && len(got.cmds[2][0]) == 0, "special-empty-bulk")
	}
}

// refCommands: how many complete commands (arrays whose elements are bulk strings) the leading
// well-formed part of s contains. Reference decoder, deliberately simple and lenient where the
// property is silent: "-0" reads as 0, a nil bulk ($-1) is tolerated as an element, empty and null
// arrays count as (harmless) values.
func refNumber(s []byte, i int) (n int, next int, ok bool) {
	neg := false
	if i < len(s) && (s[i] == '-' || s[i] == '+') {
		neg = s[i] == '-'
		i++
	}
	start := i
	for i < len(s) && s[i] >= '0' && s[i] <= '9' {
		n = n*10 + int(s[i]-'0')
		i++
		if n > 100000 {
			return 0, 0, false
		}
	}
	if i == start || i+1 >= len(s) || s[i] != '\r' || s[i+1] != '\n' {
		return 0, 0, false
	}
	if neg {
		n = -n
	}
	return n, i + 2, true
}

// refLineEnd: the line starting at i ends at the first LF, which must be preceded by CR
func refLineEnd(s []byte, i int) (next int, ok bool) {
	for j := i; j < len(s); j++ {
		if s[j] == '\n' {
			if j > i && s[j-1] == '\r' {
				return j + 1, true
			}
			return 0, false
		}
	}
	return 0, false
}

func refCommands(s []byte) (count int) {
	i := 0
	for i < len(s) {
		if s[i] == '$' {
			// a well-formed top-level bulk string is a RESP value, just not a command: skipped, not malformed
			l, j2, ok := refNumber(s, i+1)
			if !ok || l < -1 {
				return count
			}
			if l == -1 {
				i = j2
				continue
			}
			if j2+l+2 > len(s) || s[j2+l] != '\r' || s[j2+l+1] != '\n' {
				return count
			}
			i = j2 + l + 2
			continue
		}
		if s[i] != '*' {
			// any other complete top-level line (a simple string / error / integer, or text that is no RESP
			// value at all - what Redis calls an inline command) is not a command for this server: nothing is
			// executed from it, and the property does not forbid serving the well-formed commands behind it
			j, ok := refLineEnd(s, i)
			if !ok {
				return count
			}
			i = j
			continue
		}
		n, j, ok := refNumber(s, i+1)
		if !ok || n < -1 {
			return count
		}
		for k := 0; k < n; k++ {
			if j >= len(s) || s[j] != '$' {
				return count
			}
			l, j2, ok := refNumber(s, j+1)
			if !ok || l < -1 {
				return count
			}
			if l == -1 {
				j = j2
				continue
			}
			if j2+l+2 > len(s) || s[j2+l] != '\r' || s[j2+l+1] != '\n' {
				return count
			}
			j = j2 + l + 2
		}
		count++
		i = j
	}
	return count
}

// arbitrary bytes: no panic, no runaway allocation, and at most the commands of the well-formed
// prefix are delivered before the first error / EOF
func c02Malformed(maxLen int) {
	vfOpt("hangcheck", 1)
	stream := vfBytes("s", 0, maxLen)
	conn := vfNewConn("P", false)
	ch := ParseStream(context.Background(), conn)
	vfSpawn(func() { c02Feed(conn, stream, nil) })
	// read until the first error or EOF
	delivered := 0
	for i := 0; i < maxLen+2; i++ {
		r, ok := <-ch
		if !ok {
			break
		}
		if r.Err != nil {
			break
		}
		if _, isArr := r.Data.(*ArrayData); isArr {
			delivered++
		}
	}
	// known leniency (known_findings.json, class v_c02.nonbulk_element): array elements that are not bulks
	nb := vfBool("c02.nonbulk-element")
	vfAssume(nb == c02NonBulkElement(stream))
	vfAssert(delivered <= refCommands(stream), "malformed-nothing-executed-beyond-wellformed-prefix")
	// ("the offending connection gets an error or is closed" for a complete top-level value that is no
	// command is the handler's obligation: harness/server/c02.go, VF_C02_handle_non_command_request)
}

func VF_C02_malformed_quick()    { c02Malformed(6) }
func VF_C02_malformed_thorough() { c02Malformed(8) }

// headers with extreme declared lengths: rejected (or at least survived) without allocating what they
// declare and without a panic
func VF_C02_declared_length() {
	vfOpt("hangcheck", 1)
	heads := []string{"$9223372036854775807", "$9223372036854775806", "$68719476736", "$-2", "$-9223372036854775808",
		"*9223372036854775807", "*-2", "*2147483648", "$18446744073709551616", "*1\r\n$9223372036854775807"}
	h := heads[vfChoice("head", len(heads))]
	stream := []byte(h + "\r\nab\r\n")
	conn := vfNewConn("P", false)
	ch := ParseStream(context.Background(), conn)
	vfSpawn(func() { c02Feed(conn, stream, nil) })
	delivered := 0
	for i := 0; i < 6; i++ {
		r, ok := <-ch
		if !ok || r.Err != nil {
			break
		}
		if a, isArr := r.Data.(*ArrayData); isArr && len(a.ToCommand()) > 0 {
			delivered++
		}
	}
	vfAssert(delivered == 0, "declared-length-nothing-delivered")
}

// ---------------------------------------------------------------------------
// VF_C02_one_byte_off: a well-formed two-command stream in which one byte (every position) is replaced
// by an arbitrary other value: what is delivered before the first error / EOF never exceeds the commands
// of the stream's well-formed prefix (reference decoder), and delivered commands carry the reference
// bytes. Reaches malformed inputs far longer than the arbitrary-stream harness can afford.
func VF_C02_one_byte_off() {
	vfOpt("hangcheck", 1)
	v := vfBytes("v", 1, 2)
	stream := append(vfEncode(bs("SET"), bs("k"), v), vfEncode(bs("ECHO"), bs("hi"))...)
	o := vfChoice("offset", len(stream))
	nb := vfByte("newbyte")
	vfAssume(nb != stream[o])
	bad := append([]byte(nil), stream...)
	bad[o] = nb
	conn := vfNewConn("P", false)
	ch := ParseStream(context.Background(), conn)
	vfSpawn(func() { c02Feed(conn, bad, nil) })
	delivered := 0
	for i := 0; i < 4; i++ {
		r, ok := <-ch
		if !ok || r.Err != nil {
			break
		}
		if _, isArr := r.Data.(*ArrayData); isArr {
			delivered++
		}
	}
	// known leniency (see known_findings.json): inside a request array the parser also accepts element
	// lines that are not bulk strings; the class predicate names exactly that shape
	lenient := vfBool("c02.nonbulk-element")
	vfAssume(lenient == c02NonBulkElement(bad))
	vfAssert(delivered <= refCommands(bad), "damaged-stream-delivered-beyond-its-wellformed-prefix")
}

// c02NonBulkElement: following the array headers of s, some element position holds a line that does not
// start with '$' (a simple/plain line or another array header)
func c02NonBulkElement(s []byte) bool {
	i := 0
	for i < len(s) {
		if s[i] == '$' {
			l, j2, ok := refNumber(s, i+1)
			if !ok || l < -1 {
				return false
			}
			if l == -1 {
				i = j2
				continue
			}
			if j2+l+2 > len(s) || s[j2+l] != '\r' || s[j2+l+1] != '\n' {
				return false
			}
			i = j2 + l + 2
			continue
		}
		if s[i] != '*' {
			return false
		}
		n, j, ok := refNumber(s, i+1)
		if !ok || n < -1 {
			return false
		}
		for k := 0; k < n; k++ {
			if j >= len(s) {
				return false
			}
			if s[j] != '$' {
				return true
			}
			l, j2, ok := refNumber(s, j+1)
			if !ok || l < -1 {
				return false
			}
			if l == -1 {
				j = j2
				continue
			}
			if j2+l+2 > len(s) || s[j2+l] != '\r' || s[j2+l+1] != '\n' {
				return false
			}
			j = j2 + l + 2
		}
		i = j
	}
	return false
}

// VF_C02_connections_independent: a connection that ends in the middle of a command (every cut position)
// leaves nothing behind: the next connection's well-formed command is decoded exactly.
func VF_C02_connections_independent() {
	first := vfEncode(bs("SET"), bs("k"), bs("vv"))
	cut := 1 + vfChoice("cut", len(first)-1)
	a := vfNewConn("A", false)
	chA := ParseStream(context.Background(), a)
	vfSpawn(func() { c02Feed(a, first[:cut], nil) })
	c02Collect(chA, 4)
	arg := vfBytes("arg", 0, 2)
	b := vfNewConn("B", false)
	chB := ParseStream(context.Background(), b)
	vfSpawn(func() { c02Feed(b, vfEncode(bs("PING"), arg), nil) })
	out := c02Collect(chB, 4)
	vfAssert(out.errs == 0 && len(out.cmds) == 1, "second-connection-disturbed-by-the-first")
	if len(out.cmds) == 1 {
		vfAssert(len(out.cmds[0]) == 2 && string(out.cmds[0][0]) == "PING" && vfBytesEq(out.cmds[0][1], arg), "second-connection-command-changed")
	}
}

// C04 (no input takes the server down) for the first code that touches a client's bytes: the parser
// goroutine is not covered by any recover, so a panic in it ends the process. Arbitrary streams of up to 6
// bytes (quick) / 8 bytes (thorough), read to the first error or EOF: no panic, no hang, no runaway
// allocation (reported by the engine as PANIC / UNWIND / ALLOC verdicts).
func c04ParserArbitrary(maxLen int) {
	vfOpt("hangcheck", 1)
	stream := vfBytes("s", 0, maxLen)
	conn := vfNewConn("P", false)
	ch := ParseStream(context.Background(), conn)
	vfSpawn(func() { c02Feed(conn, stream, nil) })
	n := 0
	for i := 0; i < maxLen+2; i++ {
		r, ok := <-ch
		if !ok || r.Err != nil {
			break
		}
		n++
	}
	vfAssert(n <= maxLen, "parser-delivers-more-values-than-bytes")
}

func VF_C04_parser_arbitrary_quick()    { c04ParserArbitrary(6) }
func VF_C04_parser_arbitrary_thorough() { c04ParserArbitrary(8) }
