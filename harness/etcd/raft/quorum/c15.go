//go:build verif

package quorum

// C15 (quorum arithmetic): MajorityConfig / JointConfig against their definitions, for every vote
// assignment and every acknowledged-index assignment of up to 5 voters, plus the intersection lemma.

type c15Acks map[uint64]Index

func (m c15Acks) AckedIndex(id uint64) (Index, bool) { i, ok := m[id]; return i, ok }

func c15Config(first uint64, n int) MajorityConfig {
	c := MajorityConfig{}
	for i := 0; i < n; i++ {
		c[first+uint64(i)] = struct{}{}
	}
	return c
}

// reference: number of voters of c that acknowledge at least x
func c15AtLeast(c MajorityConfig, acks c15Acks, x Index) int {
	k := 0
	for id := range c {
		if a, ok := acks[id]; ok && a >= x {
			k++
		}
	}
	return k
}

func c15Majority(n int) {
	c := c15Config(1, n)
	votes := map[uint64]bool{}
	acks := c15Acks{}
	yes, no := 0, 0
	for id := uint64(1); id <= uint64(n); id++ {
		switch vfChoice("vote", 3) {
		case 0:
			votes[id] = true
			yes++
		case 1:
			votes[id] = false
			no++
		}
		if vfChoice("acked", 2) == 1 {
			a := vfUint64("ack")
			vfAssume(a < 1<<32)
			acks[id] = Index(a)
		}
	}
	q := n/2 + 1
	r := c.VoteResult(votes)
	switch {
	case yes >= q:
		vfAssert(r == VoteWon, "vote-won")
	case no > n-q:
		vfAssert(r == VoteLost, "vote-lost")
	default:
		vfAssert(r == VotePending, "vote-pending")
	}
	// committed index = the largest x acknowledged by a quorum (missing acknowledgements count as 0)
	ci := c.CommittedIndex(acks)
	vfAssert(ci == 0 || c15AtLeast(c, acks, ci) >= q, "committed-index-without-quorum")
	vfAssert(c15AtLeast(c, acks, ci+1) < q, "committed-index-not-maximal")
}

func VF_C15_majority_quick()    { c15Majority(1 + vfChoice("n", 3)) }
func VF_C15_majority_thorough() { c15Majority(1 + vfChoice("n", 5)) }

// joint configuration: both majorities must agree
func c15Joint(n0, n1 int) {
	j := JointConfig{c15Config(1, n0), c15Config(2, n1)} // overlapping voter sets {1..n0} and {2..n1+1}
	votes := map[uint64]bool{}
	acks := c15Acks{}
	top := uint64(n0)
	if uint64(n1)+1 > top {
		top = uint64(n1) + 1
	}
	for id := uint64(1); id <= top; id++ {
		switch vfChoice("vote", 3) {
		case 0:
			votes[id] = true
		case 1:
			votes[id] = false
		}
		a := vfUint64("ack")
		vfAssume(a < 1<<32)
		acks[id] = Index(a)
	}
	r0, r1 := j[0].VoteResult(votes), j[1].VoteResult(votes)
	r := j.VoteResult(votes)
	vfAssert((r == VoteWon) == (r0 == VoteWon && r1 == VoteWon), "joint-won-needs-both")
	vfAssert((r == VoteLost) == (r0 == VoteLost || r1 == VoteLost), "joint-lost-if-either")
	c0, c1 := j[0].CommittedIndex(acks), j[1].CommittedIndex(acks)
	ci := j.CommittedIndex(acks)
	vfAssert(vfAnd(ci <= c0, ci <= c1), "joint-commit-beyond-a-half")
	vfAssert(vfOr(ci == c0, ci == c1), "joint-commit-not-min")
}

func VF_C15_joint_quick()    { c15Joint(3, 2) }
func VF_C15_joint_thorough() { c15Joint(3, 3) }

// intersection: two candidates cannot both win when no voter says yes to both
func c15Intersect(n int) {
	c := c15Config(1, n)
	a, b := map[uint64]bool{}, map[uint64]bool{}
	for id := uint64(1); id <= uint64(n); id++ {
		switch vfChoice("vote", 3) { // each voter grants at most one of the two
		case 0:
			a[id] = true
			b[id] = false
		case 1:
			a[id] = false
			b[id] = true
		}
	}
	vfAssert(!(c.VoteResult(a) == VoteWon && c.VoteResult(b) == VoteWon), "two-winners")
}

func VF_C15_intersect_quick()    { c15Intersect(1 + vfChoice("n", 4)) }
func VF_C15_intersect_thorough() { c15Intersect(1 + vfChoice("n", 5)) }
