//go:build verif

package quorum

func vfNativeSetup() {}
