//go:build verif

package raft

func vfNativeSetup() {}
