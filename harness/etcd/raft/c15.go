//go:build verif

package raft

// C15: the local rules the Raft safety argument rests on, each as a one-step lemma on the real
// etcd/raft code: an arbitrary (symbolic) node state satisfying the representation invariant, one
// arbitrary message / call, and the rule as an assertion over the post-state.

import (
	pb "go.etcd.io/etcd/raft/v3/raftpb"
	"go.etcd.io/etcd/raft/v3/tracker"
)

// c15Logger: no output; Panic*/Fatal* are the library's fail-stop refusals.
type c15Logger struct{}
type c15Refusal struct{}

func (c15Logger) Debug(v ...interface{})                   {}
func (c15Logger) Debugf(format string, v ...interface{})   {}
func (c15Logger) Error(v ...interface{})                   {}
func (c15Logger) Errorf(format string, v ...interface{})   {}
func (c15Logger) Info(v ...interface{})                    {}
func (c15Logger) Infof(format string, v ...interface{})    {}
func (c15Logger) Warning(v ...interface{})                 {}
func (c15Logger) Warningf(format string, v ...interface{}) {}
func (c15Logger) Fatal(v ...interface{})                   { panic(c15Refusal{}) }
func (c15Logger) Fatalf(format string, v ...interface{})   { panic(c15Refusal{}) }
func (c15Logger) Panic(v ...interface{})                   { panic(c15Refusal{}) }
func (c15Logger) Panicf(format string, v ...interface{})   { panic(c15Refusal{}) }

// terms are compared, never measured: values below 2^7 keep every protobuf varint one byte long, so
// Entry.Size() (payload accounting) does not fork per width class
const c15MaxTerm = 120

// c15Node: node 1 of a three-voter group {1,2,3}. The log holds nStable entries in storage and
// nUnstable unstable ones; entry terms are symbolic, non-decreasing, >= 1 and <= Term; HardState symbolic
// with Commit <= stable last index (forked), Vote in {none,1,2,3} (forked).
type c15Node struct {
	r     *raft
	st    *MemoryStorage
	terms []uint64 // terms[i] = term of entry i+1 at construction
}

func c15NewNode(nStable, nUnstable int, preVote, checkQuorum bool) *c15Node {
	return c15NewNodeV(nStable, nUnstable, preVote, checkQuorum, -1)
}

// fixedVote >= 0: the persisted vote is that value instead of a forked choice
func c15NewNodeV(nStable, nUnstable int, preVote, checkQuorum bool, fixedVote int) *c15Node {
	n := &c15Node{st: NewMemoryStorage()}
	n.st.snapshot.Metadata.ConfState = pb.ConfState{Voters: []uint64{1, 2, 3}}
	term := vfUint64("term")
	vfAssume(vfAnd(term >= 1, term < c15MaxTerm))
	prev := uint64(1)
	for i := 0; i < nStable+nUnstable; i++ {
		t := vfUint64("entry.term")
		vfAssume(vfAnd(t >= prev, t <= term))
		prev = t
		n.terms = append(n.terms, t)
	}
	for i := 0; i < nStable; i++ {
		n.st.ents = append(n.st.ents, pb.Entry{Index: uint64(i + 1), Term: n.terms[i]})
	}
	commit := uint64(vfChoice("commit", nStable+1))
	// optionally the applied prefix has been compacted away (storage keeps only a dummy entry for it)
	compact := uint64(0)
	if c15Compaction && commit > 0 {
		compact = uint64(vfChoice("compacted", int(commit)+1))
	}
	vote := uint64(fixedVote)
	if fixedVote < 0 {
		vote = uint64(vfChoice("vote", 4))
	}
	n.st.hardState = pb.HardState{Term: term, Vote: vote, Commit: commit}
	cfg := &Config{ID: 1, ElectionTick: 10, HeartbeatTick: 1, Storage: n.st, MaxSizePerMsg: noLimit,
		MaxInflightMsgs: 256, Logger: c15Logger{}, PreVote: preVote, CheckQuorum: checkQuorum}
	if compact > 0 {
		vfAssert(n.st.Compact(compact) == nil, "setup-compact")
		cfg.Applied = compact
	}
	n.r = newRaft(cfg)
	if nUnstable > 0 {
		var es []pb.Entry
		for i := nStable; i < nStable+nUnstable; i++ {
			es = append(es, pb.Entry{Index: uint64(i + 1), Term: n.terms[i]})
		}
		n.r.raftLog.append(es...)
	}
	return n
}

// c15Role puts the node into a role through the real become* functions; a leader's and a candidate's
// bookkeeping is then made symbolic within its documented invariant.
var c15Compaction bool

const (
	c15Follower = iota
	c15PreCandidate
	c15Candidate
	c15Leader
)

func (n *c15Node) role(k int) { n.roleP(k, 0) }

// varyFor: peer whose progress is fully symbolic (0 = none); the other peer only varies its Match
func (n *c15Node) roleP(k int, varyFor uint64) {
	r := n.r
	switch k {
	case c15Follower:
		// a follower may know a leader (2 or 3) or not
		switch vfChoice("lead", 3) {
		case 1:
			r.lead = 2
		case 2:
			r.lead = 3
		}
	case c15PreCandidate:
		r.becomePreCandidate()
		r.prs.RecordVote(1, true)
	case c15Candidate:
		// becomeCandidate raises the term by one: keep the node's term the symbolic one
		r.Term--
		r.becomeCandidate()
		r.prs.RecordVote(1, true)
	case c15Leader:
		r.Term--
		r.becomeCandidate()
		r.becomeLeader() // appends the leader's own-term entry
		n.terms = append(n.terms, r.Term)
		last := r.raftLog.lastIndex()
		for _, id := range []uint64{2, 3} {
			if varyFor == 0 {
				break
			}
			pr := r.prs.Progress[id]
			m := uint64(vfChoice("match", int(last)+1))
			pr.Match = m
			pr.Next = m + 1
			if id != varyFor {
				continue
			}
			if m < last && vfChoice("next-ahead", 2) == 1 {
				pr.Next = last + 1
			}
			switch vfChoice("progress-state", 2) {
			case 0:
				pr.State = tracker.StateProbe
			case 1:
				pr.State = tracker.StateReplicate
			}
		}
	}
	r.msgs = nil
}

func (n *c15Node) termAt(i uint64) uint64 {
	t, err := n.r.raftLog.term(i)
	if err != nil {
		return 0
	}
	return t
}

type c15Snap struct {
	term, vote, committed, last uint64
	state                       StateType
	terms                       []uint64
	votes                       map[uint64]bool
}

func (n *c15Node) snap() c15Snap {
	r := n.r
	s := c15Snap{term: r.Term, vote: r.Vote, committed: r.raftLog.committed, last: r.raftLog.lastIndex(), state: r.state, votes: map[uint64]bool{}}
	for i := uint64(1); i <= s.last; i++ {
		t := n.termAt(i)
		if t == 0 && int(i) <= len(n.terms) {
			t = n.terms[i-1] // compacted away: the term it had when it was written
		}
		s.terms = append(s.terms, t)
	}
	for k, v := range r.prs.Votes {
		s.votes[k] = v
	}
	return s
}

// step runs r.Step(m); a library refusal (Panicf / Fatalf through the logger) ends the path: fail-stop
// cannot violate safety. Any other panic is reported by the engine.
func (n *c15Node) step(m pb.Message) (refused bool) {
	defer func() {
		if e := recover(); e != nil {
			if _, ok := e.(c15Refusal); ok {
				refused = true
				return
			}
			panic(e)
		}
	}()
	n.r.Step(m)
	return false
}

// invariants every step must preserve, whatever the message
func (n *c15Node) common(pre c15Snap) {
	r := n.r
	vfAssert(r.Term >= pre.term, "term-regressed")
	vfAssert(vfOr(r.Term != pre.term, vfOr(pre.vote == None, r.Vote == pre.vote)), "vote-changed-within-term")
	vfAssert(r.raftLog.committed >= pre.committed, "commit-regressed")
	vfAssert(r.raftLog.committed <= r.raftLog.lastIndex(), "commit-beyond-log")
	for i := uint64(1); i <= pre.committed; i++ {
		vfAssert(n.termAt(i) == pre.terms[i-1], "committed-entry-rewritten")
	}
	// the log stays term-monotone
	last := r.raftLog.lastIndex()
	for i := uint64(2); i <= last; i++ {
		vfAssert(n.termAt(i-1) <= n.termAt(i), "log-terms-not-monotone")
	}
}

func c15UpToDate(pre c15Snap, index, logTerm uint64) bool {
	lastTerm := uint64(0)
	if pre.last > 0 {
		lastTerm = pre.terms[pre.last-1]
	}
	return vfOr(logTerm > lastTerm, vfAnd(logTerm == lastTerm, index >= pre.last))
}

// ---------------------------------------------------------------------------
// VF_C15_vote: MsgVote / MsgPreVote to a node in any role.
func c15Vote(nStable, nUnstable int) {
	preVote := vfChoice("prevote", 2) == 1
	checkQ := vfChoice("checkquorum", 2) == 1
	n := c15NewNode(nStable, nUnstable, preVote, checkQ)
	n.role(vfChoice("role", 4))
	pre := n.snap()
	typ := pb.MsgVote
	if vfChoice("msg", 2) == 1 {
		typ = pb.MsgPreVote
	}
	m := pb.Message{Type: typ, To: 1, From: uint64(2 + vfChoice("from", 2)), Term: vfUint64("m.term"),
		LogTerm: vfUint64("m.logterm"), Index: vfUint64("m.index")}
	vfAssume(vfAnd(m.Term >= 1, m.Term < c15MaxTerm)) // senders never emit term 0 (raft.send refuses)
	if vfChoice("transfer", 2) == 1 {
		m.Context = []byte(campaignTransfer)
	}
	if n.step(m) {
		return
	}
	r := n.r
	n.common(pre)
	vfAssert(r.raftLog.lastIndex() == pre.last, "vote-changed-log")
	vfAssert(r.raftLog.committed == pre.committed, "vote-changed-commit")
	grants := 0
	for _, out := range r.msgs {
		if (out.Type == pb.MsgVoteResp || out.Type == pb.MsgPreVoteResp) && !out.Reject {
			grants++
			vfAssert(out.To == m.From, "grant-to-other-node")
			vfAssert(c15UpToDate(pre, m.Index, m.LogTerm), "granted-to-stale-log")
			if out.Type == pb.MsgVoteResp {
				vfAssert(typ == pb.MsgVote, "vote-grant-for-prevote")
				vfAssert(vfAnd(r.Vote == m.From, r.Term == m.Term), "grant-not-recorded")
				// one vote per term: either a new term, or no vote / the same vote before
				vfAssert(vfOr(m.Term > pre.term, vfOr(pre.vote == None, pre.vote == m.From)), "second-vote-in-term")
			} else {
				vfAssert(typ == pb.MsgPreVote, "prevote-grant-for-vote")
				vfAssert(vfAnd(r.Term == pre.term, r.Vote == pre.vote), "prevote-changed-state")
			}
		}
	}
	vfAssert(grants <= 1, "two-grants")
	if typ == pb.MsgPreVote {
		vfAssert(vfAnd(r.Term == pre.term, r.Vote == pre.vote), "prevote-changed-hardstate")
	}
}

func VF_C15_vote_quick()    { c15Vote(1, 1) }
func VF_C15_vote_thorough() { c15Vote(2, 1) }

// ---------------------------------------------------------------------------
// VF_C15_append: MsgApp / MsgHeartbeat to a follower / candidate / leader. Sender invariant (what a real
// leader of term m.Term sends): entries contiguous from m.Index+1, terms non-decreasing, <= m.Term,
// >= m.LogTerm.
func c15Append(nStable, nUnstable, maxEnts int) {
	n := c15NewNode(nStable, nUnstable, false, false)
	n.role(vfChoice("role", 4))
	pre := n.snap()
	m := pb.Message{Type: pb.MsgApp, To: 1, From: uint64(2 + vfChoice("from", 2)), Term: vfUint64("m.term"),
		LogTerm: vfUint64("m.logterm"), Index: vfUint64("m.index"), Commit: vfUint64("m.commit")}
	vfAssume(vfAnd(vfAnd(m.Term >= 1, m.Term < c15MaxTerm), m.Index < 1<<40))
	vfAssume(m.LogTerm <= m.Term)
	k := vfChoice("nents", maxEnts+1)
	prevT := m.LogTerm
	for i := 0; i < k; i++ {
		t := vfUint64("m.ent.term")
		vfAssume(vfAnd(t >= prevT, t <= m.Term))
		prevT = t
		m.Entries = append(m.Entries, pb.Entry{Index: m.Index + 1 + uint64(i), Term: t})
	}
	// Log Matching as an assumption about the sender: it is in the same term as an entry of ours only if
	// that entry is the one it has (same index and term => same entry); entries of the leader's own term
	// at indexes we also hold at that term are identical. Expressed on terms: if we hold (i, t) and the
	// message carries (i, t') with t' == t there is no conflict by definition.
	if n.step(m) {
		return
	}
	r := n.r
	n.common(pre)
	for _, out := range r.msgs {
		if out.Type != pb.MsgAppResp || out.To != m.From {
			continue
		}
		if m.Term < pre.term {
			continue // stale-leader notification (CheckQuorum/PreVote) carries no log claim
		}
		if !out.Reject {
			if m.Index >= pre.committed || out.Index != pre.committed {
				// accepted: prev entry matches and every sent entry is now in the log
				vfAssert(vfOr(m.Index == 0, n.termAt(m.Index) == m.LogTerm), "accepted-without-prev-match")
				for _, e := range m.Entries {
					vfAssert(n.termAt(e.Index) == e.Term, "accepted-entry-missing")
				}
				vfAssert(out.Index == m.Index+uint64(len(m.Entries)), "ack-index")
			}
		} else {
			vfAssert(r.raftLog.lastIndex() == pre.last, "reject-changed-log")
			vfAssert(r.raftLog.committed == pre.committed, "reject-changed-commit")
		}
	}
	// commit only advances to what the leader says and only over entries known to match the leader's
	if r.raftLog.committed > pre.committed {
		vfAssert(r.raftLog.committed <= m.Commit, "commit-beyond-leader-commit")
		vfAssert(r.raftLog.committed <= m.Index+uint64(len(m.Entries)), "commit-beyond-matched-prefix")
	}
}

func VF_C15_append_quick()    { c15Append(2, 1, 1) }
func VF_C15_append_thorough() { c15Append(2, 1, 2) }

// ---------------------------------------------------------------------------
// VF_C15_leader_commit: MsgAppResp to a leader with arbitrary progress: commit advances only to an index
// of the leader's own term that a quorum has acknowledged.
func c15LeaderCommit(nStable int) {
	n := c15NewNodeV(nStable, 0, false, false, 0)
	from := uint64(2 + vfChoice("from", 2))
	n.roleP(c15Leader, from)
	pre := n.snap()
	m := pb.Message{Type: pb.MsgAppResp, To: 1, From: from, Term: n.r.Term,
		Index: vfUint64("m.index"), Reject: vfBool("m.reject"), RejectHint: vfUint64("m.hint"), LogTerm: vfUint64("m.logterm")}
	// a follower acknowledges / rejects indexes the leader sent (within its log); the hint is the
	// follower's own last index or a conflict index (anything up to "beyond the leader's log")
	vfAssume(vfAnd(m.Index <= pre.last, vfAnd(m.RejectHint <= pre.last+2, m.LogTerm <= c15MaxTerm)))
	if n.step(m) {
		return
	}
	r := n.r
	n.common(pre)
	vfAssert(r.state == StateLeader, "leader-stepped-down-on-ack")
	if r.raftLog.committed > pre.committed {
		c := r.raftLog.committed
		vfAssert(n.termAt(c) == r.Term, "committed-old-term-entry")
		acks := 0
		for _, id := range []uint64{1, 2, 3} {
			if r.prs.Progress[id].Match >= c {
				acks++
			}
		}
		vfAssert(acks >= 2, "committed-without-quorum")
	}
	for _, id := range []uint64{2, 3} {
		pr := r.prs.Progress[id]
		vfAssert(pr.Match <= r.raftLog.lastIndex(), "match-beyond-log")
		vfAssert(pr.Match >= uint64(0), "match")
	}
	_ = pre
}

func VF_C15_leader_commit_quick()    { c15LeaderCommit(2) }
func VF_C15_leader_commit_thorough() { c15LeaderCommit(3) }

// ---------------------------------------------------------------------------
// VF_C15_tally: (pre-)vote responses to a (pre-)candidate: leadership only from a quorum of real votes
// of the current term; pre-votes never count as votes.
func c15Tally(nStable int) {
	preVote := vfChoice("prevote", 2) == 1
	n := c15NewNode(nStable, 0, preVote, false)
	role := c15Candidate
	if vfChoice("role", 2) == 1 {
		role = c15PreCandidate
	}
	n.role(role)
	r := n.r
	// one earlier response from node 2 may already be recorded (a rejection: with three voters an
	// earlier grant would already have been a quorum together with the node's own vote)
	if vfChoice("earlier", 2) == 1 {
		r.prs.RecordVote(2, false)
	}
	pre := n.snap()
	typ := pb.MsgVoteResp
	if vfChoice("msg", 2) == 1 {
		typ = pb.MsgPreVoteResp
	}
	m := pb.Message{Type: typ, To: 1, From: uint64(2 + vfChoice("from", 2)), Term: vfUint64("m.term"), Reject: vfBool("m.reject")}
	vfAssume(vfAnd(m.Term >= 1, m.Term < c15MaxTerm)) // senders never emit term 0 (raft.send refuses)
	if n.step(m) {
		return
	}
	n.common(pre)
	if r.state == StateLeader {
		vfAssert(pre.state == StateCandidate, "leader-without-candidacy")
		vfAssert(vfAnd(typ == pb.MsgVoteResp, !m.Reject), "leader-from-non-vote")
		vfAssert(m.Term == pre.term, "leader-from-other-term-vote")
		// becomeLeader resets the tally: count the votes recorded before plus this one
		yes := 0
		for _, id := range []uint64{1, 2, 3} {
			if pre.votes[id] {
				yes++
			}
		}
		if _, dup := pre.votes[m.From]; !dup {
			yes++
		}
		vfAssert(yes >= 2, "leader-without-quorum")
		vfAssert(r.Term == pre.term, "leader-term")
		vfAssert(n.termAt(r.raftLog.lastIndex()) == r.Term, "leader-without-own-term-entry")
	}
	if pre.state == StateCandidate && typ == pb.MsgPreVoteResp && m.Term == pre.term {
		// a pre-vote response is not a vote
		vfAssert(r.state != StateLeader, "prevote-counted-as-vote")
	}
	if pre.state == StatePreCandidate && r.state == StateCandidate {
		vfAssert(vfAnd(typ == pb.MsgPreVoteResp, !m.Reject), "candidate-from-non-prevote")
		vfAssert(vfAnd(r.Term == pre.term+1, r.Vote == 1), "candidacy-term")
	}
}

func VF_C15_tally_quick()    { c15Tally(1) }
func VF_C15_tally_thorough() { c15Tally(2) }

// ---------------------------------------------------------------------------
// VF_C15_snapshot: MsgSnap to a follower: the commit index never moves backwards and committed entries
// are not replaced by an older snapshot.
func c15Snapshot(nStable, nUnstable int) {
	c15Compaction = true
	n := c15NewNode(nStable, nUnstable, false, false)
	n.role(c15Follower)
	pre := n.snap()
	si, stm := vfUint64("snap.index"), vfUint64("snap.term")
	vfAssume(vfAnd(si >= 1, si < 16))
	m := pb.Message{Type: pb.MsgSnap, To: 1, From: 2, Term: vfUint64("m.term"),
		Snapshot: pb.Snapshot{Metadata: pb.SnapshotMetadata{Index: si, Term: stm, ConfState: pb.ConfState{Voters: []uint64{1, 2, 3}}}}}
	vfAssume(vfAnd(vfAnd(m.Term >= 1, m.Term < c15MaxTerm), vfAnd(stm >= 1, stm <= m.Term)))
	// sender invariant: a snapshot covers committed state of the cluster; if we have committed index i at
	// term t and the snapshot is at (i, t') for the same index then t' == t (State Machine Safety premise)
	if si <= pre.committed {
		vfAssume(stm == pre.terms[si-1])
	}
	if n.step(m) {
		return
	}
	r := n.r
	vfAssert(r.Term >= pre.term, "term-regressed")
	vfAssert(r.raftLog.committed >= pre.committed, "commit-regressed")
	vfAssert(r.raftLog.lastIndex() >= r.raftLog.committed, "commit-beyond-log")
	for i := uint64(1); i <= pre.committed; i++ {
		if t, err := r.raftLog.term(i); err == nil && t != 0 {
			vfAssert(t == pre.terms[i-1], "committed-entry-rewritten")
		}
	}
	// the snapshot says: the cluster's committed entry at index si has term stm. A follower whose commit
	// index reaches si afterwards must hold that entry there (or the snapshot itself), not an entry of its
	// own divergent tail
	if r.raftLog.committed >= si {
		if t, err := r.raftLog.term(si); err == nil && t != 0 {
			vfAssert(t == stm, "commit-moved-over-an-entry-the-snapshot-does-not-cover")
		}
	}
}

// ---------------------------------------------------------------------------
// VF_C15_slice: raftLog.slice(lo, hi, maxSize) - what a leader puts into MsgApp and what is handed out for
// applying - returns a gap-free run of entries starting at lo, each the entry the log holds at that
// index, for every mix of entry sizes, every split between storage and the unstable part and every size
// limit (a limit cuts the run short, it never skips an entry).
func VF_C15_slice() {
	st := NewMemoryStorage()
	nStable := 1 + vfChoice("stable", 2)
	nUnstable := vfChoice("unstable", 3)
	mk := func(i int) pb.Entry {
		e := pb.Entry{Index: uint64(i), Term: uint64(1 + i/2)}
		if vfChoice("big", 2) == 1 {
			e.Data = make([]byte, 40)
			e.Data[0] = byte(i)
		}
		return e
	}
	var all []pb.Entry
	for i := 1; i <= nStable; i++ {
		all = append(all, mk(i))
	}
	vfAssert(st.Append(all) == nil, "slice-setup")
	l := newLogWithSize(st, c15Logger{}, noLimit)
	var un []pb.Entry
	for i := nStable + 1; i <= nStable+nUnstable; i++ {
		un = append(un, mk(i))
	}
	l.append(un...)
	all = append(all, un...)
	last := nStable + nUnstable
	lo := 1 + vfChoice("lo", last)
	hi := lo + 1 + vfChoice("span", last-lo+1)
	limits := []uint64{0, 10, 50, 60, 100, noLimit}
	maxSize := limits[vfChoice("limit", len(limits))]
	got, err := l.slice(uint64(lo), uint64(hi), maxSize)
	vfAssert(err == nil, "slice-error")
	vfAssert(len(got) >= 1 && len(got) <= hi-lo, "slice-length")
	size := 0
	for i, e := range got {
		w := all[lo-1+i]
		vfAssert(e.Index == w.Index && e.Term == w.Term && len(e.Data) == len(w.Data), "slice-has-a-gap-or-a-foreign-entry")
		size += e.Size()
	}
	vfAssert(len(got) == 1 || uint64(size) <= maxSize, "slice-over-the-size-limit")
	if len(got) < hi-lo {
		vfAssert(uint64(size+all[lo-1+len(got)].Size()) > maxSize, "slice-cut-short-without-need")
	}
}

func VF_C15_snapshot_quick()    { c15Snapshot(2, 0) }
func VF_C15_snapshot_thorough() { c15Snapshot(3, 1) }

// ---------------------------------------------------------------------------
// VF_C15_ready: whatever a step changes in (Term, Vote, Commit) is handed to the application for
// persistence in the next Ready, and HasReady reports it.
func c15Ready(nStable int) {
	n := c15NewNode(nStable, 0, vfChoice("prevote", 2) == 1, false)
	rn := &RawNode{raft: n.r}
	n.role(vfChoice("role", 4))
	rn.prevSoftSt = n.r.softState()
	rn.prevHardSt = n.r.hardState()
	pre := n.r.hardState()
	var m pb.Message
	switch vfChoice("msg", 3) {
	case 0:
		m = pb.Message{Type: pb.MsgVote, LogTerm: vfUint64("m.logterm"), Index: vfUint64("m.index")}
	case 1:
		m = pb.Message{Type: pb.MsgHeartbeat, Commit: vfUint64("m.commit")}
		vfAssume(m.Commit <= n.r.raftLog.lastIndex())
	case 2:
		m = pb.Message{Type: pb.MsgAppResp, Index: vfUint64("m.index")}
		vfAssume(m.Index <= n.r.raftLog.lastIndex())
	}
	m.To, m.From, m.Term = 1, uint64(2+vfChoice("from", 2)), vfUint64("m.term")
	vfAssume(vfAnd(m.Term >= 1, m.Term < c15MaxTerm)) // senders never emit term 0 (raft.send refuses)
	if n.step(m) {
		return
	}
	post := n.r.hardState()
	changed := !vfAnd(post.Term == pre.Term, vfAnd(post.Vote == pre.Vote, post.Commit == pre.Commit))
	if changed {
		vfAssert(rn.HasReady(), "hardstate-change-without-ready")
		rd := rn.readyWithoutAccept()
		vfAssert(vfAnd(rd.HardState.Term == post.Term, vfAnd(rd.HardState.Vote == post.Vote, rd.HardState.Commit == post.Commit)), "ready-hardstate-stale")
		if post.Term != pre.Term || post.Vote != pre.Vote {
			vfAssert(rd.MustSync, "term-or-vote-change-not-mustsync")
		}
	}
}

func VF_C15_ready_quick()    { c15Ready(1) }
func VF_C15_ready_thorough() { c15Ready(2) }

// ---------------------------------------------------------------------------
// VF_C15_restart: what a node exposes for persistence (hardState) brings a restarted node back to the
// same term, vote and commit index (crash-restart never regresses them).
func c15Restart(nStable int) {
	n := c15NewNode(nStable, 0, false, false)
	n.role(vfChoice("role", 4))
	hs := n.r.hardState()
	// the application persisted hs and the stable entries; restart from them
	st := NewMemoryStorage()
	st.snapshot.Metadata.ConfState = pb.ConfState{Voters: []uint64{1, 2, 3}}
	for i := uint64(1); i <= n.r.raftLog.lastIndex(); i++ {
		st.ents = append(st.ents, pb.Entry{Index: i, Term: n.termAt(i)})
	}
	st.hardState = hs
	r2 := newRaft(&Config{ID: 1, ElectionTick: 10, HeartbeatTick: 1, Storage: st, MaxSizePerMsg: noLimit, MaxInflightMsgs: 256, Logger: c15Logger{}})
	vfAssert(vfAnd(r2.Term == hs.Term, vfAnd(r2.Vote == hs.Vote, r2.raftLog.committed == hs.Commit)), "restart-lost-hardstate")
	vfAssert(r2.state == StateFollower, "restart-not-follower")
}

func VF_C15_restart() { c15Restart(2) }

// ---------------------------------------------------------------------------
// VF_C15_campaign: MsgHup. A real campaign moves to a new term and votes for itself; a pre-campaign
// changes neither; a leader does not campaign.
func c15Campaign(nStable int) {
	preVote := vfChoice("prevote", 2) == 1
	n := c15NewNode(nStable, 0, preVote, false)
	// entries up to the commit index are applied (otherwise pending configuration changes may veto)
	n.r.raftLog.applied = n.r.raftLog.committed
	n.role(vfChoice("role", 4))
	pre := n.snap()
	if n.step(pb.Message{Type: pb.MsgHup, From: 1}) {
		return
	}
	r := n.r
	n.common(pre)
	if pre.state == StateLeader {
		vfAssert(vfAnd(r.state == StateLeader, r.Term == pre.term), "leader-campaigned")
		return
	}
	if r.state == StateCandidate {
		vfAssert(vfAnd(r.Term == pre.term+1, r.Vote == 1), "campaign-term-or-vote")
		vfAssert(r.prs.Votes[1], "campaign-self-vote-not-recorded")
	}
	if r.state == StatePreCandidate {
		vfAssert(vfAnd(r.Term == pre.term, r.Vote == pre.vote), "precampaign-changed-hardstate")
	}
	for _, out := range r.msgs {
		if out.Type == pb.MsgVote {
			vfAssert(vfAnd(out.Term == r.Term, vfAnd(out.Index == pre.last, out.LogTerm == n.termAt(pre.last))), "vote-request-misstates-log")
		}
		if out.Type == pb.MsgPreVote {
			vfAssert(vfAnd(out.Term == pre.term+1, vfAnd(out.Index == pre.last, out.LogTerm == n.termAt(pre.last))), "prevote-request-misstates-log")
		}
	}
}

func VF_C15_campaign() { c15Campaign(1) }

// ---------------------------------------------------------------------------
// VF_C15_confchange: a leader accepts at most one pending configuration change: a proposal carrying a
// configuration change while another is pending (or while joint) is neutralised.
func c15ConfChange(nStable int) {
	n := c15NewNodeV(nStable, 0, false, false, 0)
	n.roleP(c15Leader, 0)
	r := n.r
	pending := vfChoice("pending", 2) == 1
	r.raftLog.applied = r.raftLog.committed
	if pending {
		r.pendingConfIndex = r.raftLog.lastIndex() // an unapplied configuration change is in the log
	} else {
		r.pendingConfIndex = r.raftLog.applied
	}
	cc := pb.ConfChange{Type: pb.ConfChangeAddNode, NodeID: 4}
	data, _ := cc.Marshal()
	two := vfChoice("two", 2) == 1
	ents := []pb.Entry{{Type: pb.EntryConfChange, Data: data}}
	if two {
		ents = append(ents, pb.Entry{Type: pb.EntryConfChange, Data: data})
	}
	lastBefore := r.raftLog.lastIndex()
	if n.step(pb.Message{Type: pb.MsgProp, From: 1, Entries: ents}) {
		return
	}
	confs := 0
	for i := lastBefore + 1; i <= r.raftLog.lastIndex(); i++ {
		es, _ := r.raftLog.slice(i, i+1, noLimit)
		if len(es) == 1 && es[0].Type == pb.EntryConfChange {
			confs++
		}
	}
	if pending {
		vfAssert(confs == 0, "second-pending-confchange-accepted")
	} else {
		vfAssert(confs <= 1, "two-confchanges-in-one-proposal")
	}
}

func VF_C15_confchange() { c15ConfChange(1) }

// ---------------------------------------------------------------------------
// VF_C15_unstable_alias: entries already handed out (Ready.Entries, the Entries of emitted MsgApps are
// slices of the unstable log) are never rewritten by a later truncation/append of the unstable log.
func VF_C15_unstable_alias() {
	n := c15NewNode(1, 3, false, false)
	l := n.r.raftLog
	handed := l.unstableEntries() // what a Ready would carry
	var terms []uint64
	for _, e := range handed {
		terms = append(terms, e.Term)
	}
	// a new leader's append replaces the unstable tail from some index on
	from := uint64(2 + vfChoice("from", 3)) // first unstable index is 2
	k := 1 + vfChoice("n", 2)
	var ents []pb.Entry
	for i := 0; i < k; i++ {
		t := vfUint64("new.term")
		vfAssume(vfAnd(t >= 1, t < c15MaxTerm))
		ents = append(ents, pb.Entry{Index: from + uint64(i), Term: t, Data: []byte("new")})
	}
	l.unstable.truncateAndAppend(ents)
	for i, e := range handed {
		vfAssert(vfAnd(e.Term == terms[i], e.Index == uint64(2+i)), "handed-out-entries-rewritten")
		vfAssert(len(e.Data) == 0, "handed-out-entry-data-rewritten")
	}
	// and the log itself is what it should be: the old prefix below `from`, then the new entries
	for i := uint64(2); i < from; i++ {
		vfAssert(n.termAt(i) == terms[i-2], "truncate-damaged-kept-prefix")
	}
	for _, e := range ents {
		vfAssert(n.termAt(e.Index) == e.Term, "appended-entry-missing")
	}
	vfAssert(l.lastIndex() == from+uint64(k)-1, "tail-not-truncated")
}

// ---------------------------------------------------------------------------
// VF_C15_campaign_pending_conf: a node with a committed but unapplied configuration change must not
// campaign, however the unapplied backlog is laid out and whatever the message size limit is.
func VF_C15_campaign_pending_conf() {
	st := NewMemoryStorage()
	st.snapshot.Metadata.ConfState = pb.ConfState{Voters: []uint64{1, 2, 3}}
	cc := pb.ConfChange{Type: pb.ConfChangeAddNode, NodeID: 4}
	ccData, _ := cc.Marshal()
	nEnts := 2 + vfChoice("backlog", 2)
	pos := vfChoice("confpos", nEnts) // where the configuration change sits in the backlog
	for i := 0; i < nEnts; i++ {
		e := pb.Entry{Index: uint64(i + 1), Term: 1, Data: []byte("0123456789abcdef")}
		if i == pos {
			e = pb.Entry{Index: uint64(i + 1), Term: 1, Type: pb.EntryConfChange, Data: ccData}
		}
		st.ents = append(st.ents, e)
	}
	st.hardState = pb.HardState{Term: 1, Commit: uint64(nEnts)}
	limit := uint64(noLimit)
	switch vfChoice("maxsize", 3) {
	case 1:
		limit = 1 // every entry is larger than the limit
	case 2:
		limit = 40
	}
	r := newRaft(&Config{ID: 1, ElectionTick: 10, HeartbeatTick: 1, Storage: st, MaxSizePerMsg: limit, MaxInflightMsgs: 256, Logger: c15Logger{}})
	// nothing applied yet
	n := &c15Node{r: r, st: st}
	if n.step(pb.Message{Type: pb.MsgHup, From: 1}) {
		return
	}
	vfAssert(vfAnd(r.state == StateFollower, r.Term == 1), "campaigned-with-unapplied-confchange")
}
