//go:build verif

package snap

func vfNativeSetup() {}
