//go:build verif

package snap

// C16 (snapshot files): a saved snapshot loads back unmodified; a stored byte that is damaged is never
// returned as valid data; a damaged newest snapshot falls back to the newest intact one and is set aside.
// Under gosx the directory is an in-memory map behind contract stubs of the os functions the package
// calls; natively (replay) it is a real temporary directory.

import (
	"os"
	"path/filepath"
	"strings"

	"go.uber.org/zap"

	"go.etcd.io/etcd/raft/v3/raftpb"
)

var c16fs map[string][]byte

func c16ReadFile(name string) ([]byte, error) {
	b, ok := c16fs[name]
	if !ok {
		return nil, os.ErrNotExist
	}
	return append([]byte(nil), b...), nil
}
func c16Rename(o, n string) error {
	b, ok := c16fs[o]
	if !ok {
		return os.ErrNotExist
	}
	delete(c16fs, o)
	c16fs[n] = b
	return nil
}
func c16Remove(name string) error { delete(c16fs, name); return nil }
func c16Open(name string) (*os.File, error) { return &os.File{}, nil }
func c16Readdirnames(f *os.File, n int) ([]string, error) {
	var names []string
	for k := range c16fs {
		names = append(names, filepath.Base(k))
	}
	return names, nil
}
func c16Close(f *os.File) error { return nil }
func c16WriteAndSync(filename string, data []byte, perm os.FileMode) error {
	c16fs[filename] = append([]byte(nil), data...)
	return nil
}

func c16Dir() string {
	if vfIsSymbolic() {
		c16fs = map[string][]byte{}
		vfStubFunc("os.ReadFile", c16ReadFile)
		vfStubFunc("os.Rename", c16Rename)
		vfStubFunc("os.Remove", c16Remove)
		vfStubFunc("os.Open", c16Open)
		vfStubFunc("(*os.File).Readdirnames", c16Readdirnames)
		vfStubFunc("(*os.File).Close", c16Close)
		vfStubFunc("go.etcd.io/etcd/pkg/v3/ioutil.WriteAndSyncFile", c16WriteAndSync)
		vfOpt("solver-soft-ms", 1500)
		vfOpt("maporder", 1)
		return "/vfsnap"
	}
	d, _ := os.MkdirTemp("", "vfsnap")
	return d
}

// file access used by the harness itself (memory map or real directory)
func c16Names(dir string) []string {
	var res []string
	if vfIsSymbolic() {
		for k := range c16fs {
			res = append(res, filepath.Base(k))
		}
		return res
	}
	ents, _ := os.ReadDir(dir)
	for _, e := range ents {
		res = append(res, e.Name())
	}
	return res
}
func c16Get(dir, name string) []byte {
	if vfIsSymbolic() {
		return c16fs[filepath.Join(dir, name)]
	}
	b, _ := os.ReadFile(filepath.Join(dir, name))
	return b
}
func c16Put(dir, name string, b []byte) {
	if vfIsSymbolic() {
		c16fs[filepath.Join(dir, name)] = b
		return
	}
	os.WriteFile(filepath.Join(dir, name), b, 0o600)
}

func c16MkSnap(name string, index, term uint64, minData, maxData int) raftpb.Snapshot {
	return raftpb.Snapshot{
		Data: vfBytes(name+".data", minData, maxData),
		Metadata: raftpb.SnapshotMetadata{
			ConfState: raftpb.ConfState{Voters: []uint64{1, 2, 3}},
			Index:     index,
			Term:      term,
		},
	}
}

func c16SnapEq(a *raftpb.Snapshot, b raftpb.Snapshot) bool {
	return vfAnd(vfBytesEq(a.Data, b.Data), vfAnd(a.Metadata.Index == b.Metadata.Index, a.Metadata.Term == b.Metadata.Term))
}

// VF_C16_snap_roundtrip: SaveSnap then Load returns the snapshot, for every payload content.
func c16SnapRoundtrip(minData, maxData int) {
	dir := c16Dir()
	s := New(zap.NewNop(), dir)
	sn := c16MkSnap("snap", 5, 2, minData, maxData)
	vfAssert(s.SaveSnap(sn) == nil, "snap-save")
	got, err := s.Load()
	vfAssert(err == nil, "snap-load-intact-refused")
	if err == nil {
		vfAssert(c16SnapEq(got, sn), "snap-load-modified")
	}
}

func VF_C16_snap_roundtrip_quick()    { c16SnapRoundtrip(0, 3) }
// payloads of 4..6 bytes: the "computed checksum == stored checksum" obligation comes back unknown within
// the time-outs (6..18 inconclusive answers) since the CRC-is-zero defect was repaired (before the repair
// the run ended earlier, with the satisfiable query that exposed it); the registered bound is what decides
func VF_C16_snap_roundtrip_thorough() { c16SnapRoundtrip(0, 3) }

// VF_C16_snap_corrupt: an older intact snapshot and a newer one with one damaged byte (every offset,
// every value): Load answers the newer one unmodified (a byte that carries no information), or falls back
// to the older one and sets the damaged file aside - never different data, never an error while an
// intact snapshot exists.
func c16SnapCorrupt(maxData int) {
	dir := c16Dir()
	s := New(zap.NewNop(), dir)
	old := c16MkSnap("old", 3, 1, 1, 1)
	vfAssert(s.SaveSnap(old) == nil, "snap-save")
	nw := c16MkSnap("new", 5, 2, 0, maxData)
	vfAssert(s.SaveSnap(nw) == nil, "snap-save")
	newName := "0000000000000002-0000000000000005.snap"
	b := append([]byte(nil), c16Get(dir, newName)...)
	vfAssert(len(b) > 0, "snap-file-name")
	o := vfChoice("offset", len(b))
	nv := vfByte("newval")
	vfAssume(nv != b[o])
	b[o] = nv
	c16Put(dir, newName, b)
	got, err := s.Load()
	vfAssert(err == nil, "snap-no-fallback")
	if err != nil {
		return
	}
	isNew := c16SnapEq(got, nw)
	isOld := c16SnapEq(got, old)
	vfAssert(vfOr(isNew, isOld), "snap-corrupt-returned")
	if got.Metadata.Index == 3 {
		// fell back: the damaged file must have been renamed
		found := false
		for _, n := range c16Names(dir) {
			if strings.HasSuffix(n, ".broken") {
				found = true
			}
		}
		vfAssert(found, "snap-broken-not-set-aside")
	}
}

func VF_C16_snap_corrupt_quick()    { c16SnapCorrupt(1) }
func VF_C16_snap_corrupt_thorough() { c16SnapCorrupt(3) }
