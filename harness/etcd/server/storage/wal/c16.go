//go:build verif

package wal

import (
	"encoding/binary"
	"io"
	"io/fs"
	"os"
	"time"

	"go.uber.org/zap"

	"go.etcd.io/etcd/client/pkg/v3/fileutil"
	"go.etcd.io/etcd/raft/v3/raftpb"
	"go.etcd.io/etcd/server/v3/storage/wal/walpb"
)

// C16: WAL record framing, torn-write detection, crash recovery and corruption detection on the
// real encoder / decoder / ReadAll code, over in-memory files.

// VF_C16_frame: decodeFrameSize(encodeFrameSize(n)) == (n, pad), 8-byte alignment, for every n < 2^56.
func VF_C16_frame() {
	n := vfInt64("n")
	vfAssume(n >= 0 && n < (1<<56))
	lf, pad := encodeFrameSize(int(n))
	vfAssert(pad >= 0 && pad < 8, "frame-pad-range")
	vfAssert((n+int64(pad))%8 == 0, "frame-aligned")
	vfAssert(n == 0 || lf != 0, "frame-nonzero-length-word")
	rb, pb := decodeFrameSize(int64(lf))
	vfAssert(rb == n, "frame-roundtrip-len")
	vfAssert(pb == int64(pad), "frame-roundtrip-pad")
}

// ---------------------------------------------------------------------------
// in-memory segment file (preallocated, zero-filled) and the stubs that connect the real WAL code to it

const c16Sector = 512

type c16File struct {
	data   []byte // the file image (fixed size: preallocated segment)
	wpos   int    // write position of the open file
	synced []byte // image at the last completed fdatasync
	armed  bool   // the crash happens before the next fdatasync completes
	syncs  int
}

func c16NewFile(sectors int) *c16File {
	return &c16File{data: make([]byte, sectors*c16Sector), synced: make([]byte, sectors*c16Sector)}
}

func (f *c16File) Write(p []byte) (int, error) {
	vfAssume(f.wpos+len(p) <= len(f.data)) // the layouts explored stay inside the preallocated image
	copy(f.data[f.wpos:], p)
	f.wpos += len(p)
	if !vfIsSymbolic() && !f.armed {
		// native replay: os.File/fdatasync cannot be intercepted; the page writer reaches the file only
		// from flush(), which the WAL calls from sync(), so a write-out stands for a completed sync
		copy(f.synced, f.data)
		f.syncs++
	}
	return len(p), nil
}

var c16Cur *c16File

// contract stubs (symbolic runs only; natively the harness is not replayed through os.File):
func c16Seek(f *os.File, off int64, whence int) (int64, error) { return int64(c16Cur.wpos), nil }
func c16Fdatasync(f *os.File) error {
	if !c16Cur.armed {
		copy(c16Cur.synced, c16Cur.data)
		c16Cur.syncs++
	}
	return nil
}

// binary.Read of one little-endian int64 through io.ReadFull (the real function goes through reflect)
func c16BinaryRead(r io.Reader, order binary.ByteOrder, data interface{}) error {
	p := data.(*int64)
	var buf [8]byte
	if _, err := io.ReadFull(r, buf[:]); err != nil {
		return err
	}
	*p = int64(binary.LittleEndian.Uint64(buf[:]))
	return nil
}

func c16Stubs() {
	vfOpt("crc-top-class", 1)
	vfOpt("solver-soft-ms", 1500)
	vfStubFunc("(*os.File).Seek", c16Seek)
	vfStubFunc("go.etcd.io/etcd/client/pkg/v3/fileutil.Fdatasync", c16Fdatasync)
	vfStubFunc("encoding/binary.Read", c16BinaryRead)
}

type c16Reader struct {
	data []byte
	pos  int
}

func (r *c16Reader) Read(p []byte) (int, error) {
	if r.pos >= len(r.data) {
		return 0, io.EOF
	}
	n := copy(p, r.data[r.pos:])
	r.pos += n
	return n, nil
}

type c16Info struct{ size int64 }

func (i c16Info) Name() string       { return "0000000000000000-0000000000000000.wal" }
func (i c16Info) Size() int64        { return i.size }
func (i c16Info) Mode() fs.FileMode  { return 0o600 }
func (i c16Info) ModTime() time.Time { return time.Time{} }
func (i c16Info) IsDir() bool        { return false }
func (i c16Info) Sys() interface{}   { return nil }

func (r *c16Reader) FileInfo() (fs.FileInfo, error) { return c16Info{int64(len(r.data))}, nil }

// c16Writer: a WAL in append mode over the memory file, as wal.Create leaves it (crc record, metadata,
// empty snapshot record, all synced). metaLen positions the tail relative to the sector boundary.
func c16Writer(sectors, metaLen int) (*WAL, *c16File, []byte) {
	f := c16NewFile(sectors)
	c16Cur = f
	lf := &fileutil.LockedFile{}
	if !vfIsSymbolic() {
		lf.File, _ = os.CreateTemp("", "vfwal") // only Seek/Fdatasync touch it natively
	}
	w := &WAL{encoder: newEncoder(f, 0, 0), locks: []*fileutil.LockedFile{lf}}
	meta := make([]byte, metaLen)
	for i := range meta {
		meta[i] = byte(0x41 + i%26)
	}
	vfAssert(w.saveCrc(0) == nil, "head-crc")
	vfAssert(w.encoder.encode(&walpb.Record{Type: metadataType, Data: meta}) == nil, "head-meta")
	vfAssert(w.SaveSnapshot(walpb.Snapshot{}) == nil, "head-snap")
	vfAssert(f.syncs >= 1, "head-synced")
	return w, f, meta
}

type c16Batch struct {
	st   raftpb.HardState
	ents []raftpb.Entry
}

// c16MkBatch: nEnts entries with symbolic payload bytes and terms, and a hard state with symbolic fields.
func c16MkBatch(name string, firstIndex uint64, nEnts, maxData int) c16Batch {
	var b c16Batch
	for i := 0; i < nEnts; i++ {
		t := vfUint64(name + ".term")
		vfAssume(vfAnd(t >= 1, t < 128))
		b.ents = append(b.ents, raftpb.Entry{Term: t, Index: firstIndex + uint64(i), Data: vfBytes(name+".data", 0, maxData)})
	}
	t, v, c := vfUint64(name+".st.term"), vfUint64(name+".st.vote"), vfUint64(name+".st.commit")
	vfAssume(vfAnd(vfAnd(t >= 1, t < 128), vfAnd(v < 128, c < 128)))
	b.st = raftpb.HardState{Term: t, Vote: v, Commit: c}
	return b
}

func c16EntryEq(a, b raftpb.Entry) bool {
	return vfAnd(vfAnd(a.Term == b.Term, a.Index == b.Index), vfAnd(a.Type == b.Type, vfBytesEq(a.Data, b.Data)))
}

func c16StateEq(a, b raftpb.HardState) bool {
	return vfAnd(a.Term == b.Term, vfAnd(a.Vote == b.Vote, a.Commit == b.Commit))
}

// c16CrashImage: every sector that differs between the last synced image and the final image is
// independently either written completely or not at all (sector-atomic storage); symbolic choice.
func c16CrashImage(f *c16File) []byte {
	img := make([]byte, len(f.data))
	for s := 0; s*c16Sector < len(f.data); s++ {
		differs := false
		for i := s * c16Sector; i < (s+1)*c16Sector; i++ {
			if f.data[i] != f.synced[i] {
				differs = true
				break
			}
		}
		if !differs {
			copy(img[s*c16Sector:(s+1)*c16Sector], f.data[s*c16Sector:(s+1)*c16Sector])
			continue
		}
		// the subset of surviving sectors is forked (one path class per subset); byte contents stay symbolic
		if vfChoice("sector.kept", 2) == 1 {
			copy(img[s*c16Sector:(s+1)*c16Sector], f.data[s*c16Sector:(s+1)*c16Sector])
		} else {
			copy(img[s*c16Sector:(s+1)*c16Sector], f.synced[s*c16Sector:(s+1)*c16Sector])
		}
	}
	return img
}

// c16Check: what ReadAll returned must be a record-prefix of what was written that includes every
// completed (synced) batch.
func c16Check(batches []c16Batch, completed int, st raftpb.HardState, ents []raftpb.Entry) {
	var all []raftpb.Entry
	need := 0
	for i, b := range batches {
		all = append(all, b.ents...)
		if i < completed {
			need = len(all)
		}
	}
	vfAssert(len(ents) >= need, "crash-completed-entries-lost")
	vfAssert(len(ents) <= len(all), "crash-extra-entries")
	for i := range ents {
		if i < len(all) {
			vfAssert(c16EntryEq(ents[i], all[i]), "crash-entry-modified")
		}
	}
	// the hard state read back is the one of the last batch whose state record was reached
	j, n := 0, 0
	for i, b := range batches {
		if len(ents) >= n+len(b.ents) {
			// all entries of batch i read; its state record may or may not have been reached
			j = i + 1
		}
		n += len(b.ents)
	}
	// candidates: state of batch j (reached) or of batch j-1 (stopped between entries and state)
	ok := false
	if j >= 1 {
		ok = vfOr(ok, c16StateEq(st, batches[j-1].st))
	}
	if j >= 2 && j-1 >= completed {
		ok = vfOr(ok, c16StateEq(st, batches[j-2].st))
	}
	if j == 0 || (j == 1 && completed == 0) {
		ok = vfOr(ok, c16StateEq(st, raftpb.HardState{}))
	}
	vfAssert(ok, "crash-hardstate")
}

// VF_C16_crash: head + 1..2 completed Save batches + one Save interrupted between write-out and
// fdatasync; crash loses any subset of the unsynced sectors; the real decoder / ReadAll reopen it.
func c16Crash(layouts, nDone, entsPer, maxData int) { c16CrashAt(0, layouts, nDone, entsPer, maxData) }

func c16CrashAt(first, layouts, nDone, entsPer, maxData int) {
	baseBatch := c16BaseBatch
	c16Stubs()
	// layout j: the first batch after the head starts 8*j bytes before the first sector boundary, so the
	// boundary falls at every 8-aligned position of the batches (records are 8-byte aligned)
	_, pf, _ := c16Writer(3, 128)
	j := 1 + first + vfChoice("layout", layouts)
	metaLen := 128 + (c16Sector - 8*j - pf.wpos)
	vfAssume(metaLen >= 128)
	w, f, meta := c16Writer(3, metaLen)
	vfAssert(f.wpos == c16Sector-8*j, "layout-position")
	var batches []c16Batch
	idx := uint64(1)
	prev := raftpb.HardState{}
	if baseBatch {
		// an earlier completed Save establishes the term, so that a later entry-less Save can change the vote alone
		b := c16MkBatch("base", idx, 1, 0)
		idx++
		vfAssert(w.Save(b.st, b.ents) == nil, "save-error")
		batches = append(batches, b)
		prev = b.st
		nDone++
	}
	for i := len(batches); i < nDone; i++ {
		n := entsPer
		if vfChoice("done.noentries", 2) == 1 {
			n = 0 // a Save that only records a new term or vote must be durable as well
		}
		b := c16MkBatch("done", idx, n, maxData)
		if n == 0 {
			vfAssume(vfOr(b.st.Term != prev.Term, b.st.Vote != prev.Vote))
		}
		prev = b.st
		idx += uint64(len(b.ents))
		before := f.syncs
		vfAssert(w.Save(b.st, b.ents) == nil, "save-error")
		vfAssert(f.syncs > before, "completed-save-not-synced")
		batches = append(batches, b)
	}
	// the interrupted save: its bytes reach the file but the sync never completes
	torn := vfChoice("torn", 2) == 1
	if torn {
		b := c16MkBatch("torn", idx, entsPer, maxData)
		f.armed = true
		vfAssert(w.Save(b.st, b.ents) == nil, "save-error")

		batches = append(batches, b)
	}
	img := c16CrashImage(f)
	r := &WAL{decoder: newDecoder(&c16Reader{data: img})}
	md, st, ents, err := r.ReadAll()
	vfAssert(err == nil, "crash-readall-fatal")
	vfAssert(vfBytesEq(md, meta), "crash-metadata")
	c16Check(batches, nDone, st, ents)
}

var c16BaseBatch bool

func VF_C16_crash_quick()    { c16Crash(20, 1, 1, 2) }

// a completed Save that only changes the vote (same term, no entries) must be durable as well
func VF_C16_crash_voteonly() { c16BaseBatch = true; c16CrashAt(4, 6, 1, 1, 0) }
func VF_C16_crash_thorough() { c16Crash(40, 2, 1, 2) }

// ---------------------------------------------------------------------------
// VF_C16_torn_fn: isTornEntry == "some sector-aligned chunk of the record is all zero", for records
// that straddle the sector boundary at every position, all byte contents.
func c16TornRef(fileOff int64, data []byte) bool {
	start := 0
	for start < len(data) {
		end := start + int(c16Sector-(fileOff+int64(start))%c16Sector)
		if end > len(data) {
			end = len(data)
		}
		zero := true
		for _, b := range data[start:end] {
			zero = vfAnd(zero, b == 0)
		}
		if zero {
			return true
		}
		start = end
	}
	return false
}

func c16TornFn(maxLen int) {
	n := 1 + vfChoice("len", maxLen)
	// record data starts k bytes before a sector boundary (k in 0..n: boundary before, inside, after)
	k := vfChoice("before-boundary", n+2)
	lastValid := int64(2*c16Sector - k - frameSizeBytes)
	data := make([]byte, n)
	for i := range data {
		// zero / non-zero is what matters: one symbolic byte per position
		data[i] = vfByte("data")
	}
	d := &decoder{brs: make([]*fileutil.FileBufReader, 1), lastValidOff: lastValid}
	got := d.isTornEntry(data)
	want := c16TornRef(lastValid+frameSizeBytes, data)
	vfAssert(got == want, "torn-fn")
	// with more than one file left the record cannot be the tail: never torn
	d2 := &decoder{brs: make([]*fileutil.FileBufReader, 2), lastValidOff: lastValid}
	vfAssert(!d2.isTornEntry(data), "torn-fn-not-last-file")
}

func VF_C16_torn_fn_quick()    { c16TornFn(6) }
func VF_C16_torn_fn_thorough() { c16TornFn(10) }

// ---------------------------------------------------------------------------
// VF_C16_crcwidth: one record whose CRC takes every protobuf varint width (1..5 bytes): the record
// decodes back, the frame stays 8-byte aligned.
func VF_C16_crcwidth() {
	vfStubFunc("encoding/binary.Read", c16BinaryRead)
	vfOpt("solver-soft-ms", 1500)
	vfOpt("gauss", 0)
	f := c16NewFile(1)
	enc := newEncoder(f, 0, 0)
	data := vfBytes("data", 4, 5)
	vfAssert(enc.encode(&walpb.Record{Type: entryType, Data: data}) == nil, "encode")
	vfAssert(enc.flush() == nil, "flush")
	vfAssert(f.wpos%8 == 0, "frame-aligned")
	d := newDecoder(&c16Reader{data: f.data})
	var rec walpb.Record
	vfAssert(d.decode(&rec) == nil, "decode")
	vfAssert(vfAnd(rec.Type == entryType, vfBytesEq(rec.Data, data)), "roundtrip")
	vfAssert(d.lastOffset() == int64(f.wpos), "last-offset")
	vfAssert(d.decode(&rec) == io.EOF, "eof-after")
}

// ---------------------------------------------------------------------------
// VF_C16_corrupt: a correct synced image (head + one batch); one stored byte is replaced by a different
// value: ReadAll answers an error, or a record-prefix of what was written - never different data.
func c16Corrupt(maxData int) { c16CorruptAt(-1, maxData) }

func c16CorruptAt(at, maxData int) {
	c16Stubs()
	vfOpt("hangcheck", 1)
	w, f, meta := c16Writer(1, 16)
	headEnd := f.wpos
	b := c16MkBatch("b", 1, 1, maxData)
	vfAssert(w.Save(b.st, b.ents) == nil, "save-error")
	end := f.wpos
	// corrupt one byte of the batch region (every offset), or of the head (every offset)
	o := at
	if at < 0 {
		o = vfChoice("offset", end)
	}
	_ = headEnd
	img := make([]byte, len(f.data))
	copy(img, f.data)
	nv := vfByte("newval")
	vfAssume(nv != img[o])
	img[o] = nv
	// classify the corrupted position with the reference framing (frames of the intact image)
	isType, isPad, isFraming := false, false, false
	for off := 0; off < end; {
		l := binary.LittleEndian.Uint64(f.data[off : off+8])
		rb, pb := int(l&^(uint64(0xff)<<56)), 0
		if int64(l) < 0 {
			pb = int(l>>56) & 7
		}
		if o == off+9 {
			isType = true // the record's type byte (field 1 of walpb.Record): not covered by the CRC
		}
		if o >= off+8+rb && o < off+8+rb+pb {
			isPad = true // padding bytes carry no data
		}
		// protobuf framing bytes of the record: field tags and the payload length varint
		q := off + 8
		if o == q || o == q+2 {
			isFraming = true
		}
		q += 3
		for f.data[q] >= 0x80 { // crc value varint
			q++
		}
		q++
		if q < off+8+rb {
			if o == q { // tag of the Data field
				isFraming = true
			}
			q++
			for f.data[q] >= 0x80 {
				if o == q {
					isFraming = true
				}
				q++
			}
			if o == q {
				isFraming = true
			}
		}
		off += 8 + rb + pb
	}
	tb := vfBool("corrupt.typebyte") // named so that the known-finding classes can refer to them
	vfAssume(tb == isType)
	fb := vfBool("corrupt.pbframing")
	vfAssume(fb == isFraming)
	_ = isPad
	r := &WAL{decoder: newDecoder(&c16Reader{data: img})}
	md, st, ents, err := r.ReadAll()
	if err != nil {
		return // refused: fine
	}
	vfAssert(vfBytesEq(md, meta), "corrupt-metadata-changed")
	vfAssert(len(ents) <= 1, "corrupt-extra-entries")
	if len(ents) == 1 {
		vfAssert(c16EntryEq(ents[0], b.ents[0]), "corrupt-entry-modified")
	}
	vfAssert(vfOr(c16StateEq(st, b.st), c16StateEq(st, raftpb.HardState{})), "corrupt-hardstate-modified")
}

func VF_C16_corrupt_quick()    { c16Corrupt(1) }
func VF_C16_corrupt_thorough() { c16Corrupt(3) }

// ---------------------------------------------------------------------------
// VF_C16_chain: the log continues in a second segment whose first record carries the rolling CRC of
// the first (what cut() writes). Reading both returns everything; a second segment that continues a
// different first segment is refused (CRC chain), never spliced in.
func c16Segment2(prevCrc uint32, meta []byte, st raftpb.HardState, b c16Batch) *c16File {
	f := c16NewFile(1)
	c16Cur = f
	lf := &fileutil.LockedFile{}
	if !vfIsSymbolic() {
		lf.File, _ = os.CreateTemp("", "vfwal")
	}
	w := &WAL{encoder: newEncoder(f, prevCrc, 0), locks: []*fileutil.LockedFile{lf}}
	vfAssert(w.saveCrc(prevCrc) == nil, "seg2-crc")
	vfAssert(w.encoder.encode(&walpb.Record{Type: metadataType, Data: meta}) == nil, "seg2-meta")
	vfAssert(w.saveState(&st) == nil, "seg2-state")
	vfAssert(w.Save(b.st, b.ents) == nil, "seg2-save")
	return f
}

func VF_C16_chain() {
	c16Stubs()
	w1, f1, meta := c16Writer(1, 8)
	b1 := c16MkBatch("one", 1, 1, 2)
	vfAssert(w1.Save(b1.st, b1.ents) == nil, "save-error")
	crc1 := w1.encoder.crc.Sum32()
	b2 := c16MkBatch("two", 2, 1, 1)
	f2 := c16Segment2(crc1, meta, b1.st, b2)
	r := &WAL{decoder: newDecoder(&c16Reader{data: f1.data}, &c16Reader{data: f2.data})}
	md, st, ents, err := r.ReadAll()
	vfAssert(err == nil, "chain-readall")
	vfAssert(vfBytesEq(md, meta), "chain-metadata")
	// ReadAll leaves the WAL ready for appending: the metadata it will write at the head of the next
	// segment (cut) is the log's metadata
	vfAssert(vfBytesEq(r.metadata, meta), "readall-forgot-the-metadata-for-the-next-segment")
	vfAssert(len(ents) == 2, "chain-entries")
	if len(ents) == 2 {
		vfAssert(vfAnd(c16EntryEq(ents[0], b1.ents[0]), c16EntryEq(ents[1], b2.ents[0])), "chain-entry-modified")
	}
	vfAssert(c16StateEq(st, b2.st), "chain-hardstate")

	// a first segment that differs in one payload byte in front of the same second segment (CRC-32
	// guarantees a different rolling CRC for a single-byte difference; colliding multi-byte differences
	// exist and are outside what a CRC chain can promise)
	if len(b1.ents[0].Data) == 0 {
		return
	}
	w3, f3, _ := c16Writer(1, 8)
	other := append([]byte(nil), b1.ents[0].Data...)
	nb := vfByte("other.byte")
	vfAssume(nb != other[0])
	other[0] = nb
	e3 := []raftpb.Entry{{Term: b1.ents[0].Term, Index: 1, Data: other}}
	vfAssert(w3.Save(b1.st, e3) == nil, "save-error")
	r2 := &WAL{decoder: newDecoder(&c16Reader{data: f3.data}, &c16Reader{data: f2.data})}
	_, _, _, err2 := r2.ReadAll()
	vfAssert(err2 != nil, "chain-foreign-segment-accepted")
}

// ---------------------------------------------------------------------------
// VF_C16_readall_index: entry records with arbitrary (small) indexes relative to the start snapshot:
// ReadAll never slices out of range and implements "a later entry with the same index overrides".
func VF_C16_readall_index() {
	c16Stubs()
	w, f, _ := c16Writer(1, 8)
	start := vfUint64("start")
	vfAssume(start < 100)
	n := 2 + vfChoice("n", 2)
	var idx []uint64
	for i := 0; i < n; i++ {
		x := vfUint64("index")
		vfAssume(x < 100)
		idx = append(idx, x)
		e := raftpb.Entry{Term: 1, Index: x, Data: []byte{byte(i + 1)}}
		vfAssert(w.saveEntry(&e) == nil, "save-entry")
	}
	vfAssert(w.sync() == nil, "sync")
	r := &WAL{decoder: newDecoder(&c16Reader{data: f.data}), start: walpb.Snapshot{Index: start}}
	_, _, ents, err := r.ReadAll()
	// reference
	var ref []byte
	outOfRange := false
	for i, x := range idx {
		if x > start {
			up := x - start - 1
			if up > uint64(len(ref)) {
				outOfRange = true
				break
			}
			ref = append(ref[:up], byte(i+1))
		}
	}
	if outOfRange {
		vfAssert(err == ErrSliceOutOfRange, "readall-gap-not-refused")
		return
	}
	vfAssert(err == nil || err == ErrSnapshotNotFound, "readall-index-error")
	vfAssert(len(ents) == len(ref), "readall-index-count")
	for i := range ref {
		if i < len(ents) {
			vfAssert(vfAnd(len(ents[i].Data) == 1, ents[i].Index == start+1+uint64(i)), "readall-index-entry")
			if len(ents[i].Data) == 1 {
				vfAssert(ents[i].Data[0] == ref[i], "readall-index-override")
			}
		}
	}
}

// ---------------------------------------------------------------------------
// VF_C16_corrupt_sealed: the log has two segments; one byte of a frame-size word (every byte of every
// length word) of the first, sealed segment is damaged: ReadAll answers an error or unmodified data, it
// never panics and never allocates from an unchecked length.
func VF_C16_corrupt_sealed() {
	c16Stubs()
	vfOpt("hangcheck", 1) // an allocation or loop driven by a damaged length word is a violation, not a bound
	w1, f1, meta := c16Writer(1, 8)
	b1 := c16MkBatch("one", 1, 1, 1)
	vfAssert(w1.Save(b1.st, b1.ents) == nil, "save-error")
	end1 := f1.wpos
	crc1 := w1.encoder.crc.Sum32()
	b2 := c16MkBatch("two", 2, 1, 0)
	f2 := c16Segment2(crc1, meta, b1.st, b2)
	// offsets of the length words of segment 1
	var words []int
	for off := 0; off < end1; {
		words = append(words, off)
		l := binary.LittleEndian.Uint64(f1.data[off : off+8])
		rb, pb := int(l&^(uint64(0xff)<<56)), 0
		if int64(l) < 0 {
			pb = int(l>>56) & 7
		}
		off += 8 + rb + pb
	}
	o := words[vfChoice("record", len(words))] + vfChoice("byte", 8)
	img := make([]byte, end1) // a sealed segment is cut to its used length
	copy(img, f1.data[:end1])
	nv := vfByte("newval")
	vfAssume(nv != img[o])
	img[o] = nv
	r := &WAL{decoder: newDecoder(&c16Reader{data: img}, &c16Reader{data: f2.data})}
	md, st, ents, err := r.ReadAll()
	if err != nil {
		return
	}
	vfAssert(vfBytesEq(md, meta), "sealed-corrupt-metadata-changed")
	vfAssert(len(ents) <= 2, "sealed-corrupt-extra-entries")
	all := []raftpb.Entry{b1.ents[0], b2.ents[0]}
	for i := range ents {
		vfAssert(c16EntryEq(ents[i], all[i]), "sealed-corrupt-entry-modified")
	}
	vfAssert(vfOr(c16StateEq(st, b2.st), vfOr(c16StateEq(st, b1.st), c16StateEq(st, raftpb.HardState{}))), "sealed-corrupt-hardstate-modified")
}

// ---------------------------------------------------------------------------
// VF_C16_repair: Repair on the crash images of VF_C16_crash (last segment with a possibly torn tail): it
// reports success, truncates exactly at the end of the last whole record, and the repaired segment then
// reads to a clean end of file with every completed Save intact. Also for a segment that continues an
// earlier one (its first record carries the previous segment's CRC).
var c16RepairImg []byte
var c16Truncated int64

func c16OpenLast(lg *zap.Logger, dir string) (*fileutil.LockedFile, error) {
	return &fileutil.LockedFile{File: &os.File{}}, nil
}
func c16NewFileReader(f *os.File) fileutil.FileReader { return &c16Reader{data: c16RepairImg} }
func c16FileName(f *os.File) string                   { return "0000000000000000-0000000000000000.wal" }
func c16Create(name string) (*os.File, error)         { return &os.File{}, nil }
func c16FileClose(f *os.File) error                   { return nil }
func c16Copy(dst io.Writer, src io.Reader) (int64, error) { return 0, nil }
func c16Truncate(f *os.File, size int64) error        { c16Truncated = size; return nil }
func c16Fsync(f *os.File) error                       { return nil }

func c16Repair(second bool, layouts int) {
	c16Stubs()
	var w *WAL
	var f *c16File
	var batches []c16Batch
	idx := uint64(1)
	if second {
		// the segment under repair continues an earlier one
		w1, _, meta := c16Writer(1, 8)
		b0 := c16MkBatch("seg1", 1, 1, 1)
		vfAssert(w1.Save(b0.st, b0.ents) == nil, "save-error")
		f = c16NewFile(3)
		c16Cur = f
		lf := &fileutil.LockedFile{}
		if !vfIsSymbolic() {
			lf.File, _ = os.CreateTemp("", "vfwal")
		}
		prev := w1.encoder.crc.Sum32()
		w = &WAL{encoder: newEncoder(f, prev, 0), locks: []*fileutil.LockedFile{lf}}
		vfAssert(w.saveCrc(prev) == nil, "seg2-crc")
		vfAssert(w.encoder.encode(&walpb.Record{Type: metadataType, Data: meta}) == nil, "seg2-meta")
		vfAssert(w.saveState(&b0.st) == nil, "seg2-state")
		vfAssert(w.sync() == nil, "seg2-sync")
		idx = 2
	} else {
		_, pf, _ := c16Writer(3, 128)
		j := 1 + vfChoice("layout", layouts)
		metaLen := 128 + (c16Sector - 8*j - pf.wpos)
		vfAssume(metaLen >= 128)
		w, f, _ = c16Writer(3, metaLen)
	}
	b := c16MkBatch("done", idx, 1, 1)
	vfAssert(w.Save(b.st, b.ents) == nil, "save-error")
	batches = append(batches, b)
	idx++
	synced := f.wpos
	tb := c16MkBatch("torn", idx, 1, 2)
	f.armed = true
	vfAssert(w.Save(tb.st, tb.ents) == nil, "save-error")
	batches = append(batches, tb)
	img := c16CrashImage(f)

	if !vfIsSymbolic() {
		c16RepairNative(img, second)
		return
	}
	vfStubFunc("go.etcd.io/etcd/server/v3/storage/wal.openLast", c16OpenLast)
	vfStubFunc("go.etcd.io/etcd/client/pkg/v3/fileutil.NewFileReader", c16NewFileReader)
	vfStubFunc("(*os.File).Name", c16FileName)
	vfStubFunc("os.Create", c16Create)
	vfStubFunc("(*os.File).Close", c16FileClose)
	vfStubFunc("io.Copy", c16Copy)
	vfStubFunc("(*os.File).Truncate", c16Truncate)
	vfStubFunc("go.etcd.io/etcd/client/pkg/v3/fileutil.Fsync", c16Fsync)
	c16RepairImg, c16Truncated = img, -1
	vfAssert(Repair(nil, "/vfwal"), "torn-tail-not-repairable")
	size := len(img)
	if c16Truncated >= 0 {
		vfAssert(c16Truncated >= int64(synced), "repair-cut-into-completed-saves")
		vfAssert(c16Truncated%8 == 0 && c16Truncated <= int64(f.wpos), "repair-truncation-offset")
		size = int(c16Truncated)
	}
	// the repaired segment reads to a clean end: every record decodes, then io.EOF
	d := newDecoder(&c16Reader{data: img[:size]})
	var rec walpb.Record
	n := 0
	var err error
	for err = d.decode(&rec); err == nil; err = d.decode(&rec) {
		if rec.Type == crcType {
			d.updateCRC(rec.Crc)
		}
		n++
	}
	vfAssert(err == io.EOF, "repaired-segment-still-broken")
	vfAssert(d.lastOffset() >= int64(synced), "repaired-segment-lost-completed-records")
}

// native replay: the same image as a real segment file, the real Repair, then the real Open / ReadAll
func c16RepairNative(img []byte, second bool) {
	dir, _ := os.MkdirTemp("", "vfwalrepair")
	name := "0000000000000000-0000000000000000.wal"
	if second {
		name = "0000000000000001-0000000000000002.wal"
	}
	os.WriteFile(dir+"/"+name, img, 0o600)
	vfAssert(Repair(zap.NewNop(), dir), "torn-tail-not-repairable")
	fi, _ := os.Stat(dir + "/" + name)
	d := newDecoder(&c16Reader{data: func() []byte { b, _ := os.ReadFile(dir + "/" + name); return b }()})
	_ = fi
	var rec walpb.Record
	var err error
	for err = d.decode(&rec); err == nil; err = d.decode(&rec) {
		if rec.Type == crcType {
			d.updateCRC(rec.Crc)
		}
	}
	vfAssert(err == io.EOF, "repaired-segment-still-broken")
}

func VF_C16_repair_quick()         { c16Repair(false, 12) }
func VF_C16_repair_thorough()      { c16Repair(false, 30) }
func VF_C16_repair_second_segment() { c16Repair(true, 0) }

// C08 (crash-restart keeps what was acknowledged) depends on the same obligation from the node's side:
// raftexample answers a vote request only after wal.Save returned, and Save decides whether to flush
// and fsync through raft.MustSync - a Save that only changes the vote must reach the disk.
func VF_C08_vote_durable() { VF_C16_crash_voteonly() }

// ---------------------------------------------------------------------------
// VF_C16_segment_name: Open chooses the segment to start reading from by the index in its file name, so the
// name cut() gives the next segment must be (index of the last record appended so far)+1 - also after
// a snapshot record that lies behind the log head (the applied index trails the appended index), whatever
// follows it. Symbolically the obligation is discharged on the writer state cut() reads (w.enti, for
// every entry count / snapshot position / trailing state-only Save); natively the same inputs go through
// the real Create / Save / SaveSnapshot / cut / Open / ReadAll on a temp directory.
func VF_C16_segment_name() {
	n := 1 + vfChoice("entries", 3)
	s := uint64(vfChoice("snapindex", n+3))
	trailing := vfChoice("trailing-state-save", 2) == 1
	head := uint64(n)
	if s > head {
		head = s
	}
	if !vfIsSymbolic() {
		dir, _ := os.MkdirTemp("", "vfwalcut")
		defer os.RemoveAll(dir)
		w, err := Create(zap.NewNop(), dir, []byte("meta"))
		vfAssert(err == nil, "segment-name-create")
		var ents []raftpb.Entry
		for i := 1; i <= n; i++ {
			ents = append(ents, raftpb.Entry{Term: 1, Index: uint64(i)})
		}
		vfAssert(w.Save(raftpb.HardState{Term: 1, Commit: uint64(n)}, ents) == nil, "segment-name-save")
		vfAssert(w.SaveSnapshot(walpb.Snapshot{Index: s, Term: 1, ConfState: &raftpb.ConfState{Voters: []uint64{1}}}) == nil, "segment-name-savesnapshot")
		if trailing {
			vfAssert(w.Save(raftpb.HardState{Term: 2, Commit: uint64(n)}, nil) == nil, "segment-name-save")
		}
		vfAssert(w.cut() == nil, "segment-name-cut")
		w.Close()
		names, _ := readWALNames(zap.NewNop(), dir)
		_, idx, perr := parseWALName(names[len(names)-1])
		vfAssert(perr == nil && idx == head+1, "next-segment-name-behind-log-head")
		return
	}
	c16Stubs()
	w, _, _ := c16Writer(3, 128)
	b := c16MkBatch("done", 1, n, 0)
	vfAssert(w.Save(b.st, b.ents) == nil, "segment-name-save")
	vfAssert(w.enti == uint64(n), "segment-name-head-after-save")
	vfAssert(w.SaveSnapshot(walpb.Snapshot{Index: s, Term: 1, ConfState: &raftpb.ConfState{Voters: []uint64{1}}}) == nil, "segment-name-savesnapshot")
	if trailing {
		st := b.st
		st.Term++
		vfAssert(w.Save(st, nil) == nil, "segment-name-save")
	}
	vfAssert(w.enti+1 == head+1, "next-segment-name-behind-log-head")
}

func VF_C08_segment_name() { VF_C16_segment_name() }
