//go:build verif

package wal

func vfNativeSetup() {}
