//go:build verif

package config

// C20 (where the number of databases comes from): Config.Parse reads "databases N" wherever the line
// stands in the file and whether or not the file ends in a newline (the shipped redis.conf does not).
// Under gosx the file is a byte slice behind stubs of os.Open / (*os.File).Read / Close; natively a real
// temporary file.

import (
	"io"
	"os"
	"strconv"
)

var c20Content []byte
var c20Pos int

func c20Open(name string) (*os.File, error) { c20Pos = 0; return &os.File{}, nil }
func c20Read(f *os.File, p []byte) (int, error) {
	if c20Pos >= len(c20Content) {
		return 0, io.EOF
	}
	n := copy(p, c20Content[c20Pos:])
	c20Pos += n
	return n, nil
}
func c20Close(f *os.File) error { return nil }

func VF_C20_config_databases() {
	n := 1 + vfChoice("databases", 20)
	other := []string{"port 6380\n", "# a comment\n", "loglevel info\n", "\n"}
	var content []byte
	before := vfChoice("lines-before", 3)
	for i := 0; i < before; i++ {
		content = append(content, other[vfChoice("line", len(other))]...)
	}
	content = append(content, "databases "+strconv.Itoa(n)...)
	switch vfChoice("ending", 3) {
	case 0: // last line without a newline
	case 1:
		content = append(content, '\n')
	case 2:
		content = append(content, "\nshardnum 8"...)
	}
	cfg := &Config{Databases: 16, Others: map[string]any{}}
	name := "/vf/redis.conf"
	if vfIsSymbolic() {
		c20Content = content
		vfStubFunc("os.Open", c20Open)
		vfStubFunc("(*os.File).Read", c20Read)
		vfStubFunc("(*os.File).Close", c20Close)
	} else {
		f, _ := os.CreateTemp("", "vfconf")
		f.Write(content)
		f.Close()
		name = f.Name()
	}
	vfAssert(cfg.Parse(name) == nil, "config-parse-error")
	vfAssert(cfg.Databases == n, "configured-database-count-ignored")
}
