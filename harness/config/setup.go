//go:build verif

package config

func vfNativeSetup() {}
