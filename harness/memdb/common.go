//go:build verif

package memdb

// Shared harness helpers for the memdb package (injected as /repo/memdb/zz_vf_common.go).

import (
	"context"
	"os"

	"github.com/innovationb1ue/RedisGO/config"
	"github.com/innovationb1ue/RedisGO/logger"
	"github.com/innovationb1ue/RedisGO/resp"
)

// vfNativeSetup initialises what main() initialises before any command runs (native replays only).
func vfNativeSetup() {
	dir, _ := os.MkdirTemp("", "vflog")
	cfg := &config.Config{ShardNum: 2, LogDir: dir, LogLevel: "panic", Databases: 4}
	config.Configures = cfg
	_ = logger.SetUp(cfg)
	logger.Disable()
}

var hRegistered bool

func hRegister() {
	if hRegistered {
		return
	}
	hRegistered = true
	RegisterKeyCommands()
	RegisterStringCommands()
	RegisterListCommands()
	RegisterSetCommands()
	RegisterHashCommands()
	RegisterPubSubCommands()
	RegisterSortedSetCommands()
	RegisterStreamCommands()
	RegisterRaftCommand()
}

// hNewDb: a fresh real MemDb with ShardNum shards (=> 2*ShardNum lock stripes).
func hNewDb(shards int) *MemDb {
	hRegister()
	if config.Configures == nil {
		config.Configures = &config.Config{}
	}
	config.Configures.ShardNum = shards
	return NewMemDb()
}

// ---- replies as plain values

const (
	rNil    = iota // nil bulk or nil array
	rInt           // :n
	rBulk          // $..
	rStatus        // +..
	rErr           // -..
	rArr           // *n
	rNone          // executor returned a nil interface (the server answers "-unknown error")
	rOther
)

type rv struct {
	k int
	n int64
	b []byte
	a []rv
}

func dec(r resp.RedisData) rv {
	if r == nil {
		return rv{k: rNone}
	}
	switch x := r.(type) {
	case *resp.IntData:
		return rv{k: rInt, n: x.Data()}
	case *resp.BulkData:
		if x.Data() == nil {
			return rv{k: rNil}
		}
		return rv{k: rBulk, b: x.Data()}
	case *resp.StringData:
		return rv{k: rStatus, b: []byte(x.Data())}
	case *resp.ErrorData:
		return rv{k: rErr, b: []byte(x.Error())}
	case *resp.ArrayData:
		d := x.Data()
		if d == nil {
			return rv{k: rNil}
		}
		a := make([]rv, len(d))
		for i := range d {
			a[i] = dec(d[i])
		}
		return rv{k: rArr, a: a}
	}
	return rv{k: rOther}
}

func vNil() rv            { return rv{k: rNil} }
func vInt(n int64) rv     { return rv{k: rInt, n: n} }
func vBulk(b []byte) rv   { return rv{k: rBulk, b: b} }
func vStatus(s string) rv { return rv{k: rStatus, b: []byte(s)} }
func vErr() rv            { return rv{k: rErr} }
func vArr(a []rv) rv {
	if a == nil {
		a = []rv{}
	}
	return rv{k: rArr, a: a}
}
func vBulks(bs [][]byte) rv {
	a := make([]rv, len(bs))
	for i := range bs {
		a[i] = vBulk(bs[i])
	}
	return vArr(a)
}

// rvEq: integers, nil and payload bytes must be equal; arrays element-wise; an error only has to be
// an error (wording is not compared); status vs bulk framing of the same text is equal here
// (framing is C03's subject).
func rvEq(got, want rv) bool {
	gk, wk := got.k, want.k
	if gk == rStatus {
		gk = rBulk
	}
	if wk == rStatus {
		wk = rBulk
	}
	if gk != wk {
		return false
	}
	switch gk {
	case rInt:
		return got.n == want.n
	case rBulk:
		return vfBytesEq(got.b, want.b)
	case rArr:
		if len(got.a) != len(want.a) {
			return false
		}
		ok := true
		for i := range got.a {
			ok = vfAnd(ok, rvEq(got.a[i], want.a[i]))
		}
		return ok
	}
	return true
}

func isWrongType(r rv) bool {
	const p = "WRONGTYPE"
	return r.k == rErr && len(r.b) >= len(p) && string(r.b[:len(p)]) == p
}

func hCmd(parts ...[]byte) [][]byte { return parts }

func bs(s string) []byte { return []byte(s) }

func hExec(m *MemDb, parts ...[]byte) rv {
	return dec(m.ExecCommand(context.Background(), parts, nil))
}

// ---- direct inspection of the keyspace (bypasses locks; single-threaded harness code only)

func hGet(m *MemDb, key string) (any, bool) {
	sh := m.db.table[m.db.getKeyPos(key)]
	v, ok := sh.item[key]
	return v, ok
}

func hHasTTL(m *MemDb, key string) (int64, bool) {
	sh := m.ttlKeys.table[m.ttlKeys.getKeyPos(key)]
	v, ok := sh.item[key]
	if !ok {
		return 0, false
	}
	return v.(*TTLInfo).value, true
}

func hCountKeys(m *MemDb) int {
	n := 0
	for _, sh := range m.db.table {
		n += len(sh.item)
	}
	return n
}

// hExecPerm: like hExec, with every map iteration inside the command taking a nondeterministic order
// (all permutations for <= 3 entries, rotations/reversals beyond).
func hExecPerm(m *MemDb, parts ...[]byte) rv {
	vfOpt("maporder", 1)
	r := hExec(m, parts...)
	vfOpt("maporder", 0)
	return r
}

func hCtx() context.Context { return context.Background() }
