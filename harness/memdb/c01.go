//go:build verif

package memdb

// C01: string and key commands against a reference model of the Redis keyspace.
// One-step inductive harnesses: symbolic pre-state over two keys whose names differ only in letter
// case ("Kk", "kK": any case folding of keys makes them collide), one command with symbolic
// arguments, then reply and the whole observable keyspace (both keys, deadlines, stray keys).

import "strconv"

const (
	c01K0 = "Kk"
	c01K1 = "kK"
	farFuture = int64(5000000000) // later than any reading of the symbolic clock
)

type sent struct {
	kind   int    // kMissing / kHere (string) / kWrong (a list)
	val    []byte // string content (byte-level or numeric/float text)
	hasTTL bool
	ttl    int64
}

type sworld struct {
	m  *MemDb
	st [2]sent
}

func c01Key(i int) string {
	if i == 0 {
		return c01K0
	}
	return c01K1
}

const (
	vBytes = iota // byte-level symbolic content, 0..2 bytes
	vNum          // canonical decimal of a symbolic int64
	vFloat        // text of a symbolic float64
)

func c01Val(name string, mode int) []byte {
	switch mode {
	case vNum:
		return vfNumStr(vfInt64(name))
	case vFloat:
		return vfFloatStr(vfFloat64(name))
	}
	return vfBytes(name, 0, 2)
}

// c01Pre: key 0 (the command's target) is missing / a string (with or without a far deadline) / a list
// (idem); key 1 (whose name differs from key 0 only in letter case) is a bystander: missing or a
// string. nkeys == 2 makes key 1 a full second target as well.
func c01Pre(mode int, nkeys int) *sworld { return c01PreN(mode, nkeys, 2) }

func c01PreN(mode int, nkeys int, maxLen int) *sworld {
	w := &sworld{m: hNewDb(2)}
	for i := 0; i < 2; i++ {
		key := c01Key(i)
		nm := "k" + string(rune('0'+i))
		full := i < nkeys
		nk := 3
		if !full {
			nk = 2
		}
		switch vfChoice(nm+".kind", nk) {
		case kMissing:
			continue
		case kWrong:
			l := NewList()
			l.RPush([]byte("e"))
			w.m.db.Set(key, l)
			w.st[i] = sent{kind: kWrong}
		default:
			var v []byte
			if mode == vBytes {
				v = vfBytes(nm+".val", 0, maxLen)
			} else {
				v = c01Val(nm+".val", mode)
			}
			if !full {
				v = []byte("b")
			}
			w.m.db.Set(key, v)
			w.st[i] = sent{kind: kHere, val: v}
		}
		if full && vfChoice(nm+".ttl", 2) == 1 {
			w.m.SetTTL(key, farFuture)
			w.st[i].hasTTL = true
			w.st[i].ttl = farFuture
		}
	}
	return w
}

func sameText(a, b []byte) bool {
	// float texts are compared by value; integer texts by vfBytesEq (which knows opaque numerals)
	oa, ob := vfIsOpaque(a), vfIsOpaque(b)
	if oa && ob {
		_, na := vfNumOf(a)
		_, nb := vfNumOf(b)
		if !na || !nb {
			fa, _ := vfFloatOf(a)
			fb, _ := vfFloatOf(b)
			return fa == fb || (fa != fa && fb != fb)
		}
	}
	return vfBytesEq(a, b)
}

// c01Post compares the observable keyspace with the model.
func c01Post(w *sworld, want [2]sent, label string) {
	live := 0
	for i := 0; i < 2; i++ {
		key := c01Key(i)
		v, ok := hGet(w.m, key)
		ttl, hasTTL := hHasTTL(w.m, key)
		s := want[i]
		nm := label + "-key" + string(rune('0'+i))
		switch s.kind {
		case kMissing:
			vfAssert(!ok, nm+"-absent")
			vfAssert(!hasTTL, nm+"-no-deadline-left")
			continue
		case kWrong:
			_, isL := v.(*List)
			vfAssert(ok && isL, nm+"-other-type-untouched")
		default:
			vfAssert(ok, nm+"-present")
			b, isB := v.([]byte)
			vfAssert(isB, nm+"-is-string")
			vfAssert(sameText(b, s.val), nm+"-value")
		}
		live++
		if s.hasTTL {
			vfAssert(hasTTL, nm+"-deadline-kept")
			if s.ttl != 0 {
				vfAssert(ttl == s.ttl, nm+"-deadline-value")
			}
		} else {
			vfAssert(!hasTTL, nm+"-deadline-cleared")
		}
	}
	vfAssert(hCountKeys(w.m) == live, label+"-no-stray-key")
	vfAssert(w.m.db.Len() == int64(live), label+"-key-counter-consistent")
	vfAssert(len(w.m.db.Keys()) == live, label+"-keys-listing-consistent")
	vfAssert(vfLocksHeld() == 0, label+"-no-lock-left")
}

func c01Reply(got, want rv, wrong bool, label string) {
	if wrong {
		vfAssert(isWrongType(got), label+"-wrongtype-reply")
		return
	}
	vfAssert(rvEq2(got, want), label+"-reply")
}

// rvEq2 is rvEq with numeric/float texts compared by value.
func rvEq2(got, want rv) bool {
	if (got.k == rBulk || got.k == rStatus) && (want.k == rBulk || want.k == rStatus) {
		return sameText(got.b, want.b)
	}
	if got.k == rArr && want.k == rArr {
		if len(got.a) != len(want.a) {
			return false
		}
		ok := true
		for i := range got.a {
			ok = vfAnd(ok, rvEq2(got.a[i], want.a[i]))
		}
		return ok
	}
	return rvEq(got, want)
}

func valOrNil(s sent) rv {
	if s.kind == kHere {
		return vBulk(s.val)
	}
	return vNil()
}

// ---- GET / STRLEN / MGET / EXISTS / TYPE / PING (read-only)

func VF_C01_get() {
	w := c01Pre(vBytes, 1)
	i := 0
	got := hExec(w.m, bs("GeT"), bs(c01Key(i)))
	c01Reply(got, valOrNil(w.st[i]), w.st[i].kind == kWrong, "get")
	c01Post(w, w.st, "get")
}

func VF_C01_strlen() {
	w := c01Pre(vBytes, 1)
	i := 0
	got := hExec(w.m, bs("strlen"), bs(c01Key(i)))
	c01Reply(got, vInt(int64(len(w.st[i].val))), w.st[i].kind == kWrong, "strlen")
	c01Post(w, w.st, "strlen")
}

func VF_C01_mget() {
	w := c01Pre(vBytes, 2)
	n := 1 + vfChoice("nkeys", 3)
	args := [][]byte{bs("mget")}
	var want []rv
	for j := 0; j < n; j++ {
		i := vfChoice("key"+string(rune('0'+j)), 2)
		args = append(args, bs(c01Key(i)))
		want = append(want, valOrNil(w.st[i])) // other types read as nil
	}
	got := hExec(w.m, args...)
	c01Reply(got, vArr(want), false, "mget")
	c01Post(w, w.st, "mget")
}

func VF_C01_exists() {
	w := c01Pre(vBytes, 2)
	n := 1 + vfChoice("nkeys", 3)
	args := [][]byte{bs("exists")}
	cnt := int64(0)
	for j := 0; j < n; j++ {
		i := vfChoice("key"+string(rune('0'+j)), 3)
		if i == 2 {
			args = append(args, bs("nokey"))
			continue
		}
		args = append(args, bs(c01Key(i)))
		if w.st[i].kind != kMissing {
			cnt++
		}
	}
	got := hExec(w.m, args...)
	c01Reply(got, vInt(cnt), false, "exists")
	c01Post(w, w.st, "exists")
}

func VF_C01_ping() {
	m := hNewDb(2)
	if vfBool("withmsg") {
		msg := vfBytes("msg", 0, 2)
		vfAssert(rvEq(hExec(m, bs("PING"), msg), vBulk(msg)), "ping-echo")
	} else {
		vfAssert(rvEq(hExec(m, bs("ping")), vStatus("PONG")), "ping-pong")
	}
}

// ---- SET with options

func c01Case(word string, name string) []byte { return vfCase(name, word) }

func VF_C01_set_quick()    { c01Set(2) }
func VF_C01_set_thorough() { c01Set(3) }

func c01Set(maxOpt int) {
	w := c01PreN(vBytes, 1, 1)
	i := 0
	key := c01Key(i)
	v := vfBytes("v", 0, 1)
	args := [][]byte{bs("set"), bs(key), v}
	var nx, xx, get, keep bool
	var exKind int // 0 none 1 ex 2 px 3 exat
	var exVal int64
	bad := false
	nopt := vfChoice("nopt", maxOpt+1)
	for j := 0; j < nopt; j++ {
		nm := "opt" + string(rune('0'+j))
		switch vfChoice(nm, 7) {
		case 0:
			args = append(args, c01Case("nx", nm))
			nx = true
		case 1:
			args = append(args, c01Case("xx", nm))
			xx = true
		case 2:
			args = append(args, c01Case("get", nm))
			get = true
		case 3:
			args = append(args, c01Case("keepttl", nm))
			if exKind != 0 {
				bad = true
			}
			keep = true
		case 4, 5, 6:
			k := vfChoice(nm+".which", 3) + 1
			words := []string{"", "ex", "px", "exat"}
			n := vfInt64(nm + ".n")
			args = append(args, c01Case(words[k], nm), vfNumStr(n))
			if (exKind != 0 && exKind != k) || keep {
				bad = true
			}
			exKind, exVal = k, n
		}
	}
	if nx && xx {
		bad = true
	}
	// expire values: only the well-defined region is compared (positive, no overflow, PX whole seconds)
	if exKind != 0 {
		vfAssume(exVal > 0 && exVal < 1000000000000)
		if exKind == 2 {
			vfAssume(exVal%1000 == 0)
		}
		if exKind == 3 {
			vfAssume(exVal > 4000000000) // a deadline after every clock reading
		}
	}
	t0 := vfNow()
	got := hExec(w.m, args...)
	t1 := vfNow()
	old := w.st[i]
	want := w.st
	switch {
	case bad:
		vfAssert(got.k == rErr, "set-syntax-error-reply")
		c01Post(w, want, "set-syntax-error")
		return
	case old.kind == kWrong && get:
		vfAssert(isWrongType(got), "set-get-wrongtype-reply")
		c01Post(w, want, "set-get-wrongtype")
		return
	case old.kind == kWrong:
		// SET onto another type: the reference overwrites, the property text allows WRONGTYPE+unchanged
		vfLenient("set-onto-other-type")
		if isWrongType(got) {
			c01Post(w, want, "set-wrongtype-unchanged")
			return
		}
	}
	applied := true
	if nx && old.kind != kMissing {
		applied = false
	}
	if xx && old.kind == kMissing {
		applied = false
	}
	var reply rv
	switch {
	case get:
		reply = valOrNil(old)
	case applied:
		reply = vStatus("OK")
	default:
		reply = vNil()
	}
	vfAssert(rvEq(got, reply), "set-reply")
	if applied {
		ns := sent{kind: kHere, val: v}
		if keep {
			ns.hasTTL, ns.ttl = old.hasTTL, old.ttl
		}
		want[i] = ns
	}
	label := "set"
	if applied && exKind != 0 {
		// deadline = (a clock reading taken during the command) + value
		want[i].hasTTL = true
		want[i].ttl = 0
		ttl, has := hHasTTL(w.m, key)
		vfAssert(has, "set-expire-installed")
		switch exKind {
		case 1:
			vfAssert(ttl >= t0+exVal && ttl <= t1+exVal, "set-ex-deadline")
		case 2:
			vfAssert(ttl >= t0+exVal/1000 && ttl <= t1+exVal/1000, "set-px-deadline")
		case 3:
			vfAssert(ttl == exVal, "set-exat-deadline")
		}
		label = "set-expire"
	}
	c01Post(w, want, label)
}

// ---- SETNX / SETEX / MSET / APPEND

func VF_C01_setnx() {
	w := c01Pre(vBytes, 1)
	i := 0
	v := vfBytes("v", 0, 1)
	got := hExec(w.m, bs("SETNX"), bs(c01Key(i)), v)
	want := w.st
	reply := vInt(0)
	if w.st[i].kind == kMissing {
		reply = vInt(1)
		want[i] = sent{kind: kHere, val: v}
	}
	c01Reply(got, reply, false, "setnx")
	c01Post(w, want, "setnx")
}

func VF_C01_setex() {
	w := c01Pre(vBytes, 1)
	i := 0
	v := vfBytes("v", 0, 1)
	n := vfInt64("seconds")
	vfAssume(n > 0 && n < 1000000000000)
	t0 := vfNow()
	got := hExec(w.m, bs("setex"), bs(c01Key(i)), vfNumStr(n), v)
	t1 := vfNow()
	want := w.st
	if w.st[i].kind == kWrong {
		vfLenient("setex-onto-other-type")
		if isWrongType(got) {
			c01Post(w, want, "setex-wrongtype-unchanged")
			return
		}
	}
	vfAssert(rvEq(got, vStatus("OK")), "setex-reply")
	want[i] = sent{kind: kHere, val: v, hasTTL: true}
	ttl, has := hHasTTL(w.m, c01Key(i))
	vfAssert(has && ttl >= t0+n && ttl <= t1+n, "setex-deadline")
	c01Post(w, want, "setex")
}

func VF_C01_mset() {
	w := c01Pre(vBytes, 2)
	n := 1 + vfChoice("npairs", 2)
	args := [][]byte{bs("MSET")}
	want := w.st
	for j := 0; j < n; j++ {
		i := vfChoice("key"+string(rune('0'+j)), 2)
		v := vfBytes("v"+string(rune('0'+j)), 0, 1)
		args = append(args, bs(c01Key(i)), v)
		want[i] = sent{kind: kHere, val: v}
	}
	got := hExec(w.m, args...)
	vfAssert(rvEq(got, vStatus("OK")), "mset-reply")
	c01Post(w, want, "mset")
}

func VF_C01_append() {
	w := c01Pre(vBytes, 1)
	i := 0
	v := vfBytes("v", 0, 2)
	got := hExec(w.m, bs("append"), bs(c01Key(i)), v)
	want := w.st
	var reply rv
	if w.st[i].kind != kWrong {
		nv := append(append([]byte(nil), w.st[i].val...), v...)
		reply = vInt(int64(len(nv)))
		want[i] = sent{kind: kHere, val: nv, hasTTL: w.st[i].hasTTL, ttl: w.st[i].ttl}
	}
	c01Reply(got, reply, w.st[i].kind == kWrong, "append")
	c01Post(w, want, "append")
}

// ---- GETRANGE / SETRANGE

func VF_C01_getrange() {
	w := c01Pre(vBytes, 1)
	a, b := vfInt64("start"), vfInt64("end")
	got := hExec(w.m, bs("getrange"), bs(c01K0), vfNumStr(a), vfNumStr(b))
	s := w.st[0]
	reply := vBulk([]byte{})
	if lo, hi, ok := refNorm(a, b, len(s.val)); ok && s.kind == kHere {
		reply = vBulk(s.val[lo : hi+1])
	}
	c01Reply(got, reply, s.kind == kWrong, "getrange")
	c01Post(w, w.st, "getrange")
}

func VF_C01_setrange() {
	w := c01Pre(vBytes, 1)
	off := vfInt64("offset")
	v := vfBytes("v", 0, 2)
	vfAssume(off < 6) // the padding loop beyond is C04's subject (allocation driven by the argument)
	got := hExec(w.m, bs("SetRange"), bs(c01K0), vfNumStr(off), v)
	s := w.st[0]
	want := w.st
	var reply rv
	switch {
	case off < 0:
		reply = vErr()
	case s.kind == kWrong:
	case len(v) == 0:
		reply = vInt(int64(len(s.val))) // nothing is written, nothing is created
	default:
		o := int(off)
		n := len(s.val)
		if o+len(v) > n {
			n = o + len(v)
		}
		nv := make([]byte, n)
		copy(nv, s.val)
		copy(nv[o:], v)
		reply = vInt(int64(n))
		want[0] = sent{kind: kHere, val: nv, hasTTL: s.hasTTL, ttl: s.ttl}
	}
	if off < 0 && s.kind == kWrong {
		vfAssert(got.k == rErr, "setrange-error-reply")
	} else {
		c01Reply(got, reply, s.kind == kWrong, "setrange")
	}
	c01Post(w, want, "setrange")
}

// ---- INCR family (stored value: canonical numeric text, or byte-level text)

// refParse: how the reference reads a stored byte-level value as an integer.
// ok=false: not an integer. lenient=true: strconv accepts a spelling Redis rejects ("+5", "05", "-0").
func refParse(b []byte) (n int64, ok bool, lenient bool) {
	if vfIsOpaque(b) {
		n, ok = vfNumOf(b)
		return n, ok, false
	}
	n, err := strconv.ParseInt(string(b), 10, 64)
	if err != nil {
		return 0, false, false
	}
	if b[0] == '+' || (len(b) > 1 && b[0] == '0') || (len(b) > 1 && b[0] == '-' && b[1] == '0') {
		return n, true, true
	}
	return n, true, false
}

func c01Incr(name string, hasArg bool, neg bool, mode int) {
	w := c01Pre(mode, 1)
	var d int64 = 1
	var got rv
	if hasArg {
		d = vfInt64("delta")
		got = hExec(w.m, bs(name), bs(c01K0), vfNumStr(d))
	} else {
		got = hExec(w.m, bs(name), bs(c01K0))
	}
	s := w.st[0]
	want := w.st
	if s.kind == kWrong {
		if neg && d == -9223372036854775808 {
			vfAssert(got.k == rErr, name+"-wrongtype-or-arg-error") // either error is fine
		} else {
			vfAssert(isWrongType(got), name+"-wrongtype-reply")
		}
		c01Post(w, want, name)
		return
	}
	cur := int64(0)
	if s.kind == kHere {
		n, ok, len := refParse(s.val)
		if len {
			vfLenient("incr-noncanonical-integer")
			return
		}
		if !ok {
			vfAssert(got.k == rErr, name+"-not-an-integer-reply")
			c01Post(w, want, name+"-not-an-integer")
			return
		}
		cur = n
	}
	// overflow => error, nothing changes
	over := false
	if neg {
		if d == -9223372036854775808 {
			over = true
		} else {
			d = -d
		}
	}
	if !over {
		if d > 0 && cur > 9223372036854775807-d {
			over = true
		}
		if d < 0 && cur < -9223372036854775808-d {
			over = true
		}
	}
	if over {
		vfAssert(got.k == rErr, name+"-overflow-reply")
		c01Post(w, want, name+"-overflow")
		return
	}
	vfAssert(rvEq(got, vInt(cur+d)), name+"-reply")
	want[0] = sent{kind: kHere, val: vfNumStr(cur + d), hasTTL: s.hasTTL, ttl: s.ttl}
	c01Post(w, want, name)
}

func VF_C01_incr()         { c01Incr("incr", false, false, vNum) }
func VF_C01_decr()         { c01Incr("decr", false, true, vNum) }
func VF_C01_incrby()       { c01Incr("incrby", true, false, vNum) }
func VF_C01_decrby()       { c01Incr("decrby", true, true, vNum) }
func VF_C01_incr_bytes()   { c01Incr("INCR", false, false, vBytes) }
func VF_C01_decrby_bytes() { c01Incr("DecrBy", true, true, vBytes) }

func VF_C01_incrbyfloat() {
	w := c01Pre(vFloat, 1)
	g := vfFloat64("incr")
	vfAssume(g == g && g-g == 0) // finite increments (NaN/Inf arguments are rejected by Redis: separate case)
	got := hExec(w.m, bs("incrbyfloat"), bs(c01K0), vfFloatStr(g))
	s := w.st[0]
	want := w.st
	if s.kind == kWrong {
		vfAssert(isWrongType(got), "incrbyfloat-wrongtype-reply")
		c01Post(w, want, "incrbyfloat")
		return
	}
	cur := float64(0)
	if s.kind == kHere {
		f, _ := vfFloatOf(s.val)
		vfAssume(f == f && f-f == 0) // a stored value is a finite number
		cur = f
	}
	r := cur + g
	if r != r || r-r != 0 {
		vfAssert(got.k == rErr, "incrbyfloat-nan-inf-reply")
		c01Post(w, want, "incrbyfloat-nan-inf")
		return
	}
	vfAssert(got.k == rBulk, "incrbyfloat-reply-kind")
	f, ok := vfFloatOf(got.b)
	vfAssert(ok && f == r, "incrbyfloat-reply")
	want[0] = sent{kind: kHere, val: vfFloatStr(r), hasTTL: s.hasTTL, ttl: s.ttl}
	c01Post(w, want, "incrbyfloat")
}

// ---- DEL / TYPE / RENAME / KEYS

func VF_C01_del() {
	w := c01Pre(vBytes, 2)
	n := 1 + vfChoice("nkeys", 3)
	args := [][]byte{bs("del")}
	want := w.st
	cnt := int64(0)
	for j := 0; j < n; j++ {
		i := vfChoice("key"+string(rune('0'+j)), 3)
		if i == 2 {
			args = append(args, bs("nokey"))
			continue
		}
		args = append(args, bs(c01Key(i)))
		if want[i].kind != kMissing {
			cnt++
			want[i] = sent{}
		}
	}
	got := hExec(w.m, args...)
	c01Reply(got, vInt(cnt), false, "del")
	c01Post(w, want, "del")
}

func VF_C01_type() {
	m := hNewDb(2)
	k := vfChoice("kind", 7)
	name := "none"
	switch k {
	case 1:
		m.db.Set("k", []byte("v"))
		name = "string"
	case 2:
		hExec(m, bs("rpush"), bs("k"), bs("a"))
		name = "list"
	case 3:
		hExec(m, bs("sadd"), bs("k"), bs("a"))
		name = "set"
	case 4:
		hExec(m, bs("hset"), bs("k"), bs("f"), bs("v"))
		name = "hash"
	case 5:
		hExec(m, bs("zadd"), bs("k"), bs("1"), bs("a"))
		name = "zset"
	case 6:
		hExec(m, bs("xadd"), bs("k"), bs("1-1"), bs("f"), bs("v"))
		name = "stream"
	}
	_, ok := hGet(m, "k")
	vfAssert(ok == (k != 0), "type-pre-state-built")
	got := hExec(m, bs("TYPE"), bs("k"))
	vfAssert(rvEq(got, vStatus(name)), "type-reply-"+name)
}

func VF_C01_rename() {
	w := c01Pre(vBytes, 2)
	same := vfBool("same")
	src := vfChoice("src", 2)
	dst := 1 - src
	if same {
		dst = src
	}
	got := hExec(w.m, bs("rename"), bs(c01Key(src)), bs(c01Key(dst)))
	want := w.st
	if w.st[src].kind == kMissing {
		vfAssert(got.k == rErr, "rename-missing-source-reply")
		c01Post(w, want, "rename-missing-source")
		return
	}
	vfAssert(rvEq(got, vStatus("OK")), "rename-reply")
	if !same {
		want[dst] = w.st[src] // value and deadline move, the destination is replaced
		want[src] = sent{}
	}
	c01Post(w, want, "rename")
}

func VF_C01_keys() {
	vfOpt("hashuf", 1)
	w := c01Pre(vBytes, 2)
	var pat []byte
	switch vfChoice("pat", 8) {
	case 0:
		pat = bs("*")
	case 1:
		pat = bs("K*")
	case 2:
		pat = bs("?K")
	case 3:
		pat = bs("[Kk]k")
	case 4:
		pat = vfBytes("p", 0, 2)
		for _, c := range pat {
			vfAssume(c != '*' && c != '?' && c != '[' && c != '\\')
		}
	case 5:
		pat = bs("\\Kk") // an escaped byte matches itself
	case 6:
		pat = bs("k\\K")
	case 7:
		pat = bs("Kk\\") // trailing backslash: a broken pattern matches nothing
	}
	got := hExec(w.m, bs("KEYS"), pat)
	vfAssert(got.k == rArr, "keys-reply-kind")
	// expected: exactly the live keys the reference matcher accepts
	exp := 0
	for i := 0; i < 2; i++ {
		if w.st[i].kind == kMissing {
			continue
		}
		if c01Glob(string(pat), c01Key(i)) {
			exp++
			found := false
			for _, e := range got.a {
				if e.k == rBulk && string(e.b) == c01Key(i) {
					found = true
				}
			}
			vfAssert(found, "keys-contains-matching-key")
		}
	}
	vfAssert(len(got.a) == exp, "keys-only-matching-live-keys")
	c01Post(w, w.st, "keys")
}

// c01Glob: the documented grammar restricted to what the patterns above use.
func c01Glob(p, s string) bool {
	if len(p) == 0 {
		return len(s) == 0
	}
	switch p[0] {
	case '*':
		for i := 0; i <= len(s); i++ {
			if c01Glob(p[1:], s[i:]) {
				return true
			}
		}
		return false
	case '?':
		return len(s) > 0 && c01Glob(p[1:], s[1:])
	case '[':
		// only "[Kk]" occurs
		return len(s) > 0 && (s[0] == 'K' || s[0] == 'k') && c01Glob(p[4:], s[1:])
	case '\\':
		if len(p) < 2 {
			return false
		}
		return len(s) > 0 && s[0] == p[1] && c01Glob(p[2:], s[1:])
	}
	return len(s) > 0 && s[0] == p[0] && c01Glob(p[1:], s[1:])
}

// C17 (second obligation): KEYS returns exactly the live keys the documented grammar accepts.
func VF_C17_keys() { VF_C01_keys() }

// KEYS over a keyspace populated through the write commands themselves (SET / SETNX / RPUSH / DEL):
// the listing must contain exactly the live keys.
func VF_C17_keys_after_writes() {
	m := hNewDb(2)
	names := []string{"ka", "kb", "kc"}
	live := map[string]bool{}
	for i := 0; i < 3; i++ {
		k := names[vfChoice("key"+string(rune('0'+i)), 3)]
		switch vfChoice("op"+string(rune('0'+i)), 4) {
		case 0:
			hExec(m, bs("set"), bs(k), bs("v"))
			live[k] = true
		case 1:
			hExec(m, bs("setnx"), bs(k), bs("v"))
			live[k] = true
		case 2:
			if _, isList := func() (any, bool) { v, ok := hGet(m, k); _, l := v.(*List); return v, ok && l }(); isList || !live[k] {
				hExec(m, bs("rpush"), bs(k), bs("e"))
				live[k] = true
			}
		case 3:
			hExec(m, bs("del"), bs(k))
			delete(live, k)
		}
	}
	got := hExec(m, bs("keys"), bs("k*"))
	vfAssert(got.k == rArr && len(got.a) == len(live), "keys-after-writes-count")
	for _, e := range got.a {
		vfAssert(live[string(e.b)], "keys-after-writes-only-live-keys")
	}
}

// KEYS never lists a key whose deadline has been reached, whatever the pattern (also the patterns an
// implementation might special-case: "*", "**", an exact name)
func VF_C17_keys_expired() {
	m := hNewDb(2)
	now := vfClockNow()
	hExec(m, bs("set"), bs("live"), bs("v"))
	hExec(m, bs("set"), bs("gone"), bs("v"))
	delta := vfInt64("delta")
	vfAssume(delta >= -1000 && delta <= 0)
	vfAssert(c06Install(m, "gone", now+delta, true), "keys-expired-setup")
	pat := [][]byte{bs("*"), bs("**"), bs("gone"), bs("g*"), bs("?one"), bs("l?v*"), bs("*e")}[vfChoice("pat", 7)]
	got := hExec(m, bs("keys"), pat)
	vfAssert(got.k == rArr, "keys-expired-reply-kind")
	for _, e := range got.a {
		vfAssert(string(e.b) != "gone", "keys-lists-an-expired-key")
	}
	wantLive := c01Glob(string(pat), "live")
	found := false
	for _, e := range got.a {
		if string(e.b) == "live" {
			found = true
		}
	}
	vfAssert(found == wantLive, "keys-expired-live-key-listing")
}

// a string key set again without a deadline keeps its value however much time passes (the timer goroutine
// of the earlier SET ... EX is stale): the C06 lemma, registered here for SET / DEL / SET
func VF_C01_stale_timer() { VF_C06_stale_timer() }

// c01Wire: an argument as the parser hands it out - a slice of the read buffer with the line terminator
// (and whatever follows) behind it in the same backing array
func c01Wire(b []byte) []byte {
	buf := make([]byte, len(b)+2, len(b)+2)
	copy(buf, b)
	buf[len(b)], buf[len(b)+1] = '\r', '\n'
	return buf[:len(b)]
}

// VF_C01_setrange_wire_args: SETRANGE / APPEND on a value that is still the slice the parser produced:
// the bytes behind the argument in its backing array never become part of the value (padding is zero
// bytes), and the stored value does not change when the caller's buffer is reused afterwards.
func VF_C01_setrange_wire_args() {
	m := hNewDb(2)
	val := vfBytes("val", 1, 3)
	how := vfChoice("stored-by", 3)
	v := c01Wire(val)
	switch how {
	case 0:
		hExec(m, bs("set"), bs("k"), v)
	case 1:
		hExec(m, bs("mset"), bs("k"), v)
	default:
		hExec(m, bs("append"), bs("k"), v)
	}
	off := vfChoice("offset", 6)
	p := c01Wire(vfBytes("payload", 1, 1))
	got := hExec(m, bs("setrange"), bs("k"), vfNumStr(int64(off)), p)
	want := append([]byte(nil), val...)
	for len(want) < off+1 {
		want = append(want, 0)
	}
	want[off] = p[0]
	vfAssert(rvEq(got, vInt(int64(len(want)))), "setrange-wire-reply")
	// the connection's read buffer is reused for the next request
	for i := range v[:cap(v)] {
		v[:cap(v)][i] = '#'
	}
	for i := range p[:cap(p)] {
		p[:cap(p)][i] = '#'
	}
	r := hExec(m, bs("get"), bs("k"))
	vfAssert(r.k == rBulk && vfBytesEq(r.b, want), "setrange-wire-value")
}
