//go:build verif

package memdb

// C09: list commands against a reference model (one-step inductive harnesses: arbitrary valid
// pre-state -> one command with symbolic arguments -> reply, content, invariant, key removal).

const (
	kMissing = iota
	kHere
	kWrong
)

type lstate struct {
	kind  int
	elems [][]byte
}

// listWalk returns the forward content of l and whether the representation invariant holds.
func listWalk(l *List) ([][]byte, bool) {
	if l == nil || l.Head == nil || l.Tail == nil || l.Head.Prev != nil || l.Tail.Next != nil {
		return nil, false
	}
	var out [][]byte
	n := l.Head.Next
	prev := l.Head
	steps := 0
	for n != l.Tail {
		if n == nil || steps > 64 || n.Prev != prev {
			return nil, false
		}
		out = append(out, n.Val)
		prev = n
		n = n.Next
		steps++
	}
	if l.Tail.Prev != prev || len(out) != l.Len {
		return nil, false
	}
	return out, true
}

// c09Pre installs a symbolic pre-state for key: missing, a list of 1..max elements (each 0..1 symbolic
// bytes) built through the real constructors, or a value of another type.
func c09Pre(m *MemDb, key string, name string, max int, allowWrong bool) lstate {
	nk := 2
	if allowWrong {
		nk = 3
	}
	switch vfChoice(name+".kind", nk) {
	case kMissing:
		return lstate{kind: kMissing}
	case kWrong:
		m.db.Set(key, []byte("str"))
		return lstate{kind: kWrong}
	}
	n := 1 + vfChoice(name+".n", max)
	l := NewList()
	var elems [][]byte
	for i := 0; i < n; i++ {
		e := vfBytes(name+".e"+string(rune('0'+i)), 0, 1)
		l.RPush(e)
		elems = append(elems, e)
	}
	m.db.Set(key, l)
	got, ok := listWalk(l)
	vfAssert(ok && elemsEq(got, elems), "pre-state-built")
	return lstate{kind: kHere, elems: elems}
}

func elemsEq(a, b [][]byte) bool {
	if len(a) != len(b) {
		return false
	}
	ok := true
	for i := range a {
		ok = vfAnd(ok, vfBytesEq(a[i], b[i]))
	}
	return ok
}

// c09Post: the key's observable state equals the model state (an emptied list must be gone).
func c09Post(m *MemDb, key string, want lstate, label string) {
	v, ok := hGet(m, key)
	switch want.kind {
	case kWrong:
		b, isB := v.([]byte)
		vfAssert(ok && isB && string(b) == "str", label+"-wrongtype-untouched")
		return
	case kMissing:
		vfAssert(!ok, label+"-key-absent")
		return
	}
	if len(want.elems) == 0 {
		vfAssert(!ok, label+"-emptied-key-removed")
		return
	}
	vfAssert(ok, label+"-key-present")
	l, isL := v.(*List)
	vfAssert(isL, label+"-is-list")
	got, inv := listWalk(l)
	vfAssert(inv, label+"-list-invariant")
	vfAssert(elemsEq(got, want.elems), label+"-content")
}

func c09Reply(got, want rv, st lstate, label string) {
	if st.kind == kWrong {
		if want.k == rErr {
			// invalid arguments on a key of another type: either error is fine
			vfAssert(got.k == rErr, label+"-wrongtype-or-arg-error")
			return
		}
		vfAssert(isWrongType(got), label+"-wrongtype-reply")
		return
	}
	vfAssert(rvEq(got, want), label+"-reply")
}

func cloneElems(e [][]byte) [][]byte { return append([][]byte(nil), e...) }

// ---- reference models

func refNorm(start, stop int64, n int) (int, int, bool) {
	ln := int64(n)
	if start < 0 {
		start += ln
		if start < 0 {
			start = 0
		}
	}
	if stop < 0 {
		stop += ln
	}
	if stop >= ln {
		stop = ln - 1
	}
	if start > stop || start >= ln {
		return 0, 0, false
	}
	return int(start), int(stop), true
}

// ---- harnesses

func c09Push(name string, left, onlyIfExists bool, max int) {
	m := hNewDb(2)
	st := c09Pre(m, "k", "l", max, true)
	nv := 1 + vfChoice("nvals", 2)
	args := [][]byte{bs(name), bs("k")}
	var vals [][]byte
	for i := 0; i < nv; i++ {
		v := vfBytes("v"+string(rune('0'+i)), 0, 1)
		vals = append(vals, v)
		args = append(args, v)
	}
	got := hExec(m, args...)
	want := st
	var reply rv
	if st.kind == kMissing && onlyIfExists {
		reply = vInt(0)
	} else if st.kind != kWrong {
		el := cloneElems(st.elems)
		for _, v := range vals {
			if left {
				el = append([][]byte{v}, el...)
			} else {
				el = append(el, v)
			}
		}
		want = lstate{kind: kHere, elems: el}
		reply = vInt(int64(len(el)))
	}
	c09Reply(got, reply, st, name)
	c09Post(m, "k", want, name)
	vfAssert(vfLocksHeld() == 0, name+"-no-lock-left")
}

func VF_C09_lpush()  { c09Push("lpush", true, false, 3) }
func VF_C09_rpush()  { c09Push("rpush", false, false, 3) }
func VF_C09_lpushx() { c09Push("lpushx", true, true, 3) }
func VF_C09_rpushx() { c09Push("rpushx", false, true, 3) }

func c09Pop(name string, left bool, max int) {
	m := hNewDb(2)
	st := c09Pre(m, "k", "l", max, true)
	withCount := vfBool("withcount")
	var got rv
	var cnt int64
	if withCount {
		cnt = vfInt64("count")
		got = hExec(m, bs(name), bs("k"), vfNumStr(cnt))
	} else {
		got = hExec(m, bs(name), bs("k"))
	}
	want := st
	var reply rv
	if withCount && cnt == 0 {
		// Redis >= 7: empty array (nil on a missing key); older: error. Both accepted: not compared.
		vfLenient("pop-count-0")
		return
	}
	if withCount && cnt < 0 {
		reply = vErr()
	} else if st.kind != kWrong {
		switch {
		case st.kind == kMissing:
			reply = vNil()
		case !withCount:
			if left {
				reply = vBulk(st.elems[0])
				want = lstate{kind: kHere, elems: st.elems[1:]}
			} else {
				reply = vBulk(st.elems[len(st.elems)-1])
				want = lstate{kind: kHere, elems: st.elems[:len(st.elems)-1]}
			}
		default:
			k := len(st.elems)
			if cnt < int64(k) {
				k = int(cnt)
			}
			var out [][]byte
			el := cloneElems(st.elems)
			for i := 0; i < k; i++ {
				if left {
					out = append(out, el[0])
					el = el[1:]
				} else {
					out = append(out, el[len(el)-1])
					el = el[:len(el)-1]
				}
			}
			reply = vBulks(out)
			want = lstate{kind: kHere, elems: el}
		}
	}
	c09Reply(got, reply, st, name)
	c09Post(m, "k", want, name)
	vfAssert(vfLocksHeld() == 0, name+"-no-lock-left")
}

func VF_C09_lpop() { c09Pop("lpop", true, 3) }
func VF_C09_rpop() { c09Pop("rpop", false, 3) }

func VF_C09_llen() {
	m := hNewDb(2)
	st := c09Pre(m, "k", "l", 4, true)
	got := hExec(m, bs("llen"), bs("k"))
	c09Reply(got, vInt(int64(len(st.elems))), st, "llen")
	c09Post(m, "k", st, "llen")
}

func VF_C09_lindex() {
	m := hNewDb(2)
	st := c09Pre(m, "k", "l", 4, true)
	i := vfInt64("index")
	got := hExec(m, bs("lindex"), bs("k"), vfNumStr(i))
	reply := vNil()
	n := int64(len(st.elems))
	if i < 0 {
		i += n
	}
	if i >= 0 && i < n {
		reply = vBulk(st.elems[i])
	}
	c09Reply(got, reply, st, "lindex")
	c09Post(m, "k", st, "lindex")
}

func VF_C09_lrange() {
	m := hNewDb(2)
	st := c09Pre(m, "k", "l", 4, true)
	a, b := vfInt64("start"), vfInt64("stop")
	got := hExec(m, bs("lrange"), bs("k"), vfNumStr(a), vfNumStr(b))
	reply := vArr(nil)
	if lo, hi, ok := refNorm(a, b, len(st.elems)); ok {
		reply = vBulks(st.elems[lo : hi+1])
	}
	c09Reply(got, reply, st, "lrange")
	c09Post(m, "k", st, "lrange")
}

func VF_C09_lset() {
	m := hNewDb(2)
	st := c09Pre(m, "k", "l", 4, true)
	i := vfInt64("index")
	v := vfBytes("v", 0, 1)
	got := hExec(m, bs("lset"), bs("k"), vfNumStr(i), v)
	want := st
	reply := vErr()
	n := int64(len(st.elems))
	j := i
	if j < 0 {
		j += n
	}
	if st.kind == kHere && j >= 0 && j < n {
		el := cloneElems(st.elems)
		el[j] = v
		want = lstate{kind: kHere, elems: el}
		reply = vStatus("OK")
	}
	c09Reply(got, reply, st, "lset")
	c09Post(m, "k", want, "lset")
}

func VF_C09_lrem() {
	m := hNewDb(2)
	st := c09Pre(m, "k", "l", 4, true)
	cnt := vfInt64("count")
	v := vfBytes("v", 0, 1)
	got := hExec(m, bs("lrem"), bs("k"), vfNumStr(cnt), v)
	want := st
	reply := vInt(0)
	if st.kind == kHere {
		var el [][]byte
		removed := int64(0)
		if cnt >= 0 {
			for _, e := range st.elems {
				if vfBytesEq(e, v) && (cnt == 0 || removed < cnt) {
					removed++
				} else {
					el = append(el, e)
				}
			}
		} else {
			for i := len(st.elems) - 1; i >= 0; i-- {
				e := st.elems[i]
				// removed < -cnt without overflowing on MinInt64
				if vfBytesEq(e, v) && removed+cnt < 0 {
					removed++
				} else {
					el = append([][]byte{e}, el...)
				}
			}
		}
		want = lstate{kind: kHere, elems: el}
		reply = vInt(removed)
	}
	c09Reply(got, reply, st, "lrem")
	c09Post(m, "k", want, "lrem")
	vfAssert(vfLocksHeld() == 0, "lrem-no-lock-left")
}

func VF_C09_ltrim() {
	m := hNewDb(2)
	st := c09Pre(m, "k", "l", 4, true)
	a, b := vfInt64("start"), vfInt64("stop")
	got := hExec(m, bs("ltrim"), bs("k"), vfNumStr(a), vfNumStr(b))
	want := st
	if st.kind == kHere {
		if lo, hi, ok := refNorm(a, b, len(st.elems)); ok {
			want = lstate{kind: kHere, elems: st.elems[lo : hi+1]}
		} else {
			want = lstate{kind: kHere, elems: nil}
		}
	}
	c09Reply(got, vStatus("OK"), st, "ltrim")
	c09Post(m, "k", want, "ltrim")
}

func VF_C09_lmove() {
	m := hNewDb(2)
	same := vfBool("samekey")
	src, dst := "s", "d"
	if same {
		dst = "s"
	}
	ss := c09Pre(m, src, "src", 3, true)
	ds := ss
	if !same {
		ds = c09Pre(m, dst, "dst", 2, true)
	}
	fromLeft, toLeft := vfBool("fromleft"), vfBool("toleft")
	w1, w2 := bs("RIGHT"), bs("right")
	if fromLeft {
		w1 = bs("Left")
	}
	if toLeft {
		w2 = bs("LEFT")
	}
	got := hExec(m, bs("lmove"), bs(src), bs(dst), w1, w2)
	wantS, wantD := ss, ds
	var reply rv
	switch {
	case ss.kind == kWrong:
		vfAssert(isWrongType(got), "lmove-wrongtype-src")
	case ss.kind == kMissing:
		reply = vNil()
		vfAssert(rvEq(got, reply), "lmove-reply-missing-src")
	case ds.kind == kWrong:
		vfAssert(isWrongType(got), "lmove-wrongtype-dst")
	default:
		el := cloneElems(ss.elems)
		var e []byte
		if fromLeft {
			e, el = el[0], el[1:]
		} else {
			e, el = el[len(el)-1], el[:len(el)-1]
		}
		var dl [][]byte
		if same {
			dl = el
		} else {
			dl = cloneElems(ds.elems)
		}
		if toLeft {
			dl = append([][]byte{e}, dl...)
		} else {
			dl = append(dl, e)
		}
		wantD = lstate{kind: kHere, elems: dl}
		if same {
			wantS = wantD
		} else {
			wantS = lstate{kind: kHere, elems: el}
		}
		vfAssert(rvEq(got, vBulk(e)), "lmove-reply")
	}
	c09Post(m, src, wantS, "lmove-src")
	if !same {
		c09Post(m, dst, wantD, "lmove-dst")
	}
	vfAssert(vfLocksHeld() == 0, "lmove-no-lock-left")
}

// refLPos: the LPOS reference (rank != 0; count < 0 and maxlen < 0 are errors).
func refLPos(elems [][]byte, v []byte, rank, count, maxlen int64, hasCount bool) rv {
	var hits []rv
	n := len(elems)
	compared := int64(0)
	want := int64(1)
	if hasCount {
		want = count // 0 = all
	}
	step := func(i int) bool {
		if maxlen > 0 && compared >= maxlen {
			return false
		}
		compared++
		if vfBytesEq(elems[i], v) {
			if rank > 1 {
				rank--
			} else if rank < -1 {
				rank++
			} else {
				hits = append(hits, vInt(int64(i)))
				if want > 0 && int64(len(hits)) >= want {
					return false
				}
			}
		}
		return true
	}
	if rank > 0 {
		for i := 0; i < n; i++ {
			if !step(i) {
				break
			}
		}
	} else {
		for i := n - 1; i >= 0; i-- {
			if !step(i) {
				break
			}
		}
	}
	if hasCount {
		return vArr(hits)
	}
	if len(hits) == 0 {
		return vNil()
	}
	return hits[0]
}

func VF_C09_lpos() {
	m := hNewDb(2)
	st := c09Pre(m, "k", "l", 4, true)
	v := vfBytes("v", 0, 1)
	args := [][]byte{bs("lpos"), bs("k"), v}
	rank, count, maxlen := int64(1), int64(0), int64(0)
	hasRank, hasCount, hasMax := vfBool("hasrank"), vfBool("hascount"), vfBool("hasmaxlen")
	if hasRank {
		rank = vfInt64("rank")
		args = append(args, bs("RANK"), vfNumStr(rank))
	}
	if hasCount {
		count = vfInt64("countv")
		args = append(args, bs("count"), vfNumStr(count))
	}
	if hasMax {
		maxlen = vfInt64("maxlen")
		args = append(args, bs("MaxLen"), vfNumStr(maxlen))
	}
	got := hExec(m, args...)
	var reply rv
	vfAssume(rank != -9223372036854775808) // Redis rejects it; the reference does not say so: skipped
	switch {
	case rank == 0 || count < 0 || maxlen < 0:
		reply = vErr()
	case st.kind == kWrong:
	case st.kind == kMissing:
		if hasCount {
			reply = vArr(nil)
		} else {
			reply = vNil()
		}
	default:
		reply = refLPos(st.elems, v, rank, count, maxlen, hasCount)
	}
	lab := "lpos"
	if hasRank {
		lab += "-rank"
	}
	if hasCount {
		lab += "-count"
	}
	if hasMax {
		lab += "-maxlen"
	}
	c09Reply(got, reply, st, lab)
	c09Post(m, "k", st, "lpos")
}

// ---- BLPOP / BRPOP under virtual time (ticker every 100 ms, timer at the timeout)

func c09Block(left bool) {
	vfOpt("timers", 40)
	m := hNewDb(2)
	name := "brpop"
	if left {
		name = "blpop"
	}
	// two keys; each missing / a list / another type
	s1 := c09Pre(m, "q1", "q1", 2, true)
	s2 := c09Pre(m, "q2", "q2", 2, true)
	// (any map the executor ranges over is ranged in every order: the keys are served in argument order)
	vfOpt("maporder", 1)
	got := hExec(m, vfCase("cmdcase", name), bs("q1"), bs("q2"), bs("1"))
	vfOpt("maporder", 0)
	// the first listed key holding a non-empty list serves the pop
	pick := 0
	if s1.kind == kHere {
		pick = 1
	} else if s2.kind == kHere {
		pick = 2
	}
	w1, w2 := s1, s2
	if pick == 0 {
		if s1.kind == kWrong || s2.kind == kWrong {
			vfLenient("blocking-pop-on-other-type") // the reference answers WRONGTYPE, polling until the timeout is tolerated
			vfAssert(got.k == rNil || isWrongType(got), name+"-other-type-reply")
		} else {
			vfAssert(got.k == rNil, name+"-timeout-reply")
		}
	} else {
		src := s1
		key := "q1"
		if pick == 2 {
			src, key = s2, "q2"
		}
		var e []byte
		rest := src.elems
		if left {
			e, rest = rest[0], rest[1:]
		} else {
			e, rest = rest[len(rest)-1], rest[:len(rest)-1]
		}
		vfAssert(got.k == rArr && len(got.a) == 2, name+"-reply-shape")
		vfAssert(vfBytesEq(got.a[0].b, bs(key)), name+"-reply-key")
		vfAssert(got.a[1].k == rBulk && vfBytesEq(got.a[1].b, e), name+"-reply-element")
		if pick == 1 {
			w1 = lstate{kind: kHere, elems: rest}
		} else {
			w2 = lstate{kind: kHere, elems: rest}
		}
	}
	c09Post(m, "q1", w1, name+"-q1")
	c09Post(m, "q2", w2, name+"-q2")
	vfAssert(vfLocksHeld() == 0, name+"-no-lock-left")
}

func VF_C09_blpop() { c09Block(true) }
func VF_C09_brpop() { c09Block(false) }
