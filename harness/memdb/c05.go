//go:build verif

package memdb

// C05: concurrent clients observe linearizable single-key operations.
// Two threads run one command each against the real executors, locks and sharded map; the scheduler
// pre-empts at every synchronisation operation (bounded). Obligations on every schedule:
//   - no data race (lockset + fork/join discipline on every memory slot and map touched),
//   - no panic, no deadlock,
//   - the two replies and the resulting keyspace equal those of running the commands one after the
//     other in one of the two orders (the twin runs are the oracle),
//   - the key counter and KEYS listing agree with the shard contents at quiescence.

import "context"

type c05Case struct {
	name string
	seed [][]string
	c1   []string
	c2   []string
}

var c05Cases = []c05Case{
	{"incr-incr", [][]string{{"set", "k", "5"}}, []string{"incr", "k"}, []string{"incr", "k"}},
	{"incrby-get", [][]string{{"set", "k", "5"}}, []string{"incrby", "k", "3"}, []string{"get", "k"}},
	{"append-append", [][]string{{"set", "k", "x"}}, []string{"append", "k", "A"}, []string{"append", "k", "B"}},
	{"setnx-setnx", nil, []string{"setnx", "k", "A"}, []string{"setnx", "k", "B"}},
	{"set-del", [][]string{{"set", "k", "x"}}, []string{"set", "k", "A"}, []string{"del", "k"}},
	{"set-get-fresh", nil, []string{"set", "k", "A"}, []string{"get", "k"}},
	{"lpush-lpop", [][]string{{"rpush", "k", "e"}}, []string{"lpush", "k", "A"}, []string{"lpop", "k"}},
	{"rpush-lrange", [][]string{{"rpush", "k", "e"}}, []string{"rpush", "k", "A"}, []string{"lrange", "k", "0", "-1"}},
	{"lpop-lpop-one-element", [][]string{{"rpush", "k", "e"}}, []string{"lpop", "k"}, []string{"lpop", "k"}},
	{"sadd-srem", [][]string{{"sadd", "k", "m"}}, []string{"sadd", "k", "A"}, []string{"srem", "k", "m"}},
	{"sadd-scard", [][]string{{"sadd", "k", "m"}}, []string{"sadd", "k", "A"}, []string{"scard", "k"}},
	{"hset-hget", [][]string{{"hset", "k", "f", "v"}}, []string{"hset", "k", "f", "A"}, []string{"hget", "k", "f"}},
	{"hincrby-hincrby", [][]string{{"hset", "k", "f", "1"}}, []string{"hincrby", "k", "f", "2"}, []string{"hincrby", "k", "f", "3"}},
	{"zadd-zrange", [][]string{{"zadd", "k", "1", "m"}}, []string{"zadd", "k", "2", "A"}, []string{"zrange", "k", "0", "-1"}},
	{"zadd-zrem", [][]string{{"zadd", "k", "1", "m", "2", "n"}}, []string{"zadd", "k", "3", "m"}, []string{"zrem", "k", "n"}},
	{"xadd-xrange", [][]string{{"xadd", "k", "1-1", "f", "v"}}, []string{"xadd", "k", "2-1", "f", "A"}, []string{"xrange", "k", "-", "+"}},
	// bookkeeping shared by all keys: the sharded map's key counter and listing
	{"set-set-distinct-keys", nil, []string{"set", "k", "A"}, []string{"set", "j", "B"}},
	{"set-keys", [][]string{{"set", "j", "x"}}, []string{"set", "k", "A"}, []string{"keys", "*"}},
	{"del-keys", [][]string{{"set", "j", "x"}, {"set", "k", "y"}}, []string{"del", "k"}, []string{"keys", "*"}},
	{"set-exists", nil, []string{"set", "k", "A"}, []string{"exists", "j", "k"}},
	{"rpush-del-other", [][]string{{"set", "j", "x"}}, []string{"rpush", "k", "A"}, []string{"del", "j"}},
}

func c05Args(c []string, sym []byte) [][]byte {
	var out [][]byte
	for _, a := range c {
		switch a {
		case "A":
			out = append(out, sym)
		case "B":
			out = append(out, append([]byte{'b'}, sym...))
		default:
			out = append(out, bs(a))
		}
	}
	return out
}

func c05Seed(m *MemDb, c c05Case) {
	for _, s := range c.seed {
		var args [][]byte
		for _, a := range s {
			args = append(args, bs(a))
		}
		hExec(m, args...)
	}
}

func c05Same(m1, m2 *MemDb) bool {
	ok := true
	for _, k := range []string{"k", "j"} {
		ok = vfAnd(ok, viewsEq(c06View(m1, k), c06View(m2, k)))
	}
	return ok
}

func c05Reply(a, b rv) bool {
	// unordered multi-bulk replies (KEYS) compared as multisets
	ga, oka := arrBulks(a)
	gb, okb := arrBulks(b)
	if oka && okb {
		return permBytes(ga, gb)
	}
	return rvEq2(a, b)
}

func c05Run(lo, hi int) {
	if hi > len(c05Cases) {
		hi = len(c05Cases)
	}
	c := c05Cases[lo+vfChoice("case", hi-lo)]
	sym := vfBytes("v", 1, 1)
	a1, a2 := c05Args(c.c1, sym), c05Args(c.c2, sym)
	// sequential oracles: c1;c2 and c2;c1 on twin keyspaces
	ab := hNewDb(2)
	c05Seed(ab, c)
	ab1 := hExec(ab, a1...)
	ab2 := hExec(ab, a2...)
	ba := hNewDb(2)
	c05Seed(ba, c)
	ba2 := hExec(ba, a2...)
	ba1 := hExec(ba, a1...)
	// the concurrent run
	m := hNewDb(2)
	c05Seed(m, c)
	vfOpt("concurrent", 1)
	vfOpt("preempt", c05Preempt)
	vfOpt("racecheck", 1)
	ctx := context.Background()
	var r1, r2 rv
	vfSpawn(func() { r1 = dec(m.ExecCommand(ctx, a1, nil)) })
	vfSpawn(func() { r2 = dec(m.ExecCommand(ctx, a2, nil)) })
	vfWaitAll()
	vfOpt("racecheck", 0)
	vfOpt("concurrent", 0)
	okAB := vfAnd(vfAnd(c05Reply(r1, ab1), c05Reply(r2, ab2)), c05Same(m, ab))
	okBA := vfAnd(vfAnd(c05Reply(r1, ba1), c05Reply(r2, ba2)), c05Same(m, ba))
	vfAssert(vfOr(okAB, okBA), c.name+"-linearizable")
	vfAssert(vfLocksHeld() == 0, c.name+"-no-lock-left")
	vfAssert(m.db.Len() == int64(hCountKeys(m)), c.name+"-key-counter-consistent")
	vfAssert(len(m.db.Keys()) == hCountKeys(m), c.name+"-keys-listing-consistent")
}

var c05Preempt = 2

func VF_C05_pairs_a_quick() { c05Preempt = 2; c05Run(0, 8) }
func VF_C05_pairs_b_quick() { c05Preempt = 2; c05Run(8, 16) }
func VF_C05_pairs_c_quick() { c05Preempt = 2; c05Run(16, 100) }

func VF_C05_pairs_a_thorough() { c05Preempt = 3; c05Run(0, 8) }
func VF_C05_pairs_b_thorough() { c05Preempt = 3; c05Run(8, 16) }
func VF_C05_pairs_c_thorough() { c05Preempt = 3; c05Run(16, 100) }

// ---------------------------------------------------------------------------
// Lock discipline behind per-key linearizability: every executor that reads or writes the value of a key
// does so while holding that key's stripe. Checked by holding the stripe in the harness: the command must
// not complete until the stripe is released (deterministic under gosx and natively).
var c05StripeCases = [][]string{
	{"get", "k"}, {"set", "k", "v"}, {"setnx", "k", "v"}, {"setex", "k", "10", "v"}, {"append", "k", "v"},
	{"incr", "k"}, {"decr", "k"}, {"incrby", "k", "2"}, {"decrby", "k", "2"}, {"incrbyfloat", "k", "1.5"},
	{"getrange", "k", "0", "1"}, {"setrange", "k", "0", "v"}, {"strlen", "k"}, {"mget", "k"}, {"mset", "k", "v"},
	{"del", "k"}, {"exists", "k"}, {"expire", "k", "10"}, {"persist", "k"}, {"ttl", "k"}, {"type", "k"}, {"rename", "k", "j"},
	{"lpush", "k", "v"}, {"rpush", "k", "v"}, {"lpop", "k"}, {"rpop", "k"}, {"llen", "k"}, {"lindex", "k", "0"},
	{"lrange", "k", "0", "-1"}, {"lset", "k", "0", "v"}, {"lrem", "k", "0", "v"}, {"ltrim", "k", "0", "1"}, {"lpos", "k", "v"},
	{"sadd", "k", "v"}, {"srem", "k", "v"}, {"scard", "k"}, {"smembers", "k"}, {"sismember", "k", "v"}, {"spop", "k"}, {"srandmember", "k"},
	{"hset", "k", "f", "v"}, {"hget", "k", "f"}, {"hdel", "k", "f"}, {"hlen", "k"}, {"hgetall", "k"}, {"hincrby", "k", "f", "1"}, {"hexists", "k", "f"},
	{"hsetnx", "k", "f", "v"}, {"hkeys", "k"}, {"hvals", "k"}, {"hmget", "k", "f"}, {"hstrlen", "k", "f"}, {"hrandfield", "k"},
	{"zadd", "k", "1", "v"}, {"zrange", "k", "0", "-1"}, {"zrem", "k", "v"}, {"zrank", "k", "v"},
	{"xadd", "k", "1-1", "f", "v"}, {"xrange", "k", "-", "+"},
}

func c05TakesStripe(lo, hi int) {
	if hi > len(c05StripeCases) {
		hi = len(c05StripeCases)
	}
	c := c05StripeCases[lo+vfChoice("case", hi-lo)]
	m := hNewDb(2)
	var args [][]byte
	for _, a := range c {
		args = append(args, bs(a))
	}
	m.locks.Lock("k")
	done := false
	vfSpawn(func() {
		m.ExecCommand(context.Background(), args, nil)
		done = true
	})
	vfSettle()
	vfAssert(!done, c[0]+"-touches-the-key-without-its-stripe")
	m.locks.UnLock("k")
	vfSettle() // (TTL-setting commands leave a timer goroutine behind: wait for quiescence, not for every thread)
	vfAssert(done, c[0]+"-completes-once-the-stripe-is-free")
}

// ... and every executor that changes the key (its value or its deadline) holds the stripe exclusively: with
// the stripe read-held by the harness such a command must not complete (two of them - or one and a reader -
// would otherwise run inside each other: PERSIST's get / close / delete on the deadline record, list and
// hash updates in place, ...).
var c05WriterCases = [][]string{
	{"set", "k", "v"}, {"setnx", "k", "v"}, {"setex", "k", "10", "v"}, {"append", "k", "v"}, {"incr", "k"}, {"decr", "k"},
	{"incrby", "k", "2"}, {"decrby", "k", "2"}, {"incrbyfloat", "k", "1.5"}, {"setrange", "k", "0", "v"}, {"mset", "k", "v"},
	{"del", "k"}, {"expire", "k", "10"}, {"persist", "k"}, {"rename", "k", "j"},
	{"lpush", "k", "v"}, {"rpush", "k", "v"}, {"lpop", "k"}, {"rpop", "k"}, {"lset", "k", "0", "v"}, {"lrem", "k", "0", "v"}, {"ltrim", "k", "0", "1"},
	{"sadd", "k", "v"}, {"srem", "k", "v"}, {"spop", "k"}, {"hset", "k", "f", "v"}, {"hdel", "k", "f"}, {"hincrby", "k", "f", "1"},
	{"hsetnx", "k", "f", "v"}, {"zadd", "k", "1", "v"}, {"zrem", "k", "v"}, {"xadd", "k", "1-1", "f", "v"},
}

func VF_C05_writers_exclusive() {
	c := c05WriterCases[vfChoice("case", len(c05WriterCases))]
	m := hNewDb(2)
	// the key exists with a deadline, so that every command has something to change
	switch c[0][0] {
	case 'l', 'r':
		if c[0] == "rename" {
			hExec(m, bs("set"), bs("k"), bs("1"))
		} else {
			hExec(m, bs("rpush"), bs("k"), bs("v"), bs("w"))
		}
	case 'h':
		hExec(m, bs("hset"), bs("k"), bs("f"), bs("1"))
	case 'z':
		hExec(m, bs("zadd"), bs("k"), bs("1"), bs("v"))
	case 'x':
	case 's':
		if c[0] == "sadd" || c[0] == "srem" || c[0] == "spop" {
			hExec(m, bs("sadd"), bs("k"), bs("v"))
		} else {
			hExec(m, bs("set"), bs("k"), bs("1"))
		}
	default:
		hExec(m, bs("set"), bs("k"), bs("1"))
	}
	hExec(m, bs("expire"), bs("k"), bs("1000"))
	var args [][]byte
	for _, a := range c {
		args = append(args, bs(a))
	}
	m.locks.RLock("k")
	done := false
	vfSpawn(func() {
		m.ExecCommand(context.Background(), args, nil)
		done = true
	})
	vfSettle()
	vfAssert(!done, c[0]+"-changes-the-key-under-a-shared-stripe")
	m.locks.RUnLock("k")
	vfSettle()
	vfAssert(done, c[0]+"-completes-once-the-stripe-is-free")
}

func VF_C05_takes_stripe_a() { c05TakesStripe(0, 22) }
func VF_C05_takes_stripe_b() { c05TakesStripe(22, 100) }

// ---------------------------------------------------------------------------
// A reply handed to a connection is encoded after the executor has released the key: it must not alias
// storage that a later command of another client writes in place. Sequential form: take a reply, run a
// write command, encode the reply again - it must be unchanged.
func VF_C05_reply_stable() {
	m := hNewDb(2)
	ctx := context.Background()
	v := vfBytes("v", 2, 3)
	w := vfBytes("w", 1, 2)
	hExec(m, bs("set"), bs("k"), v)
	var read [][]byte
	switch vfChoice("read", 3) {
	case 0:
		read = [][]byte{bs("get"), bs("k")}
	case 1:
		read = [][]byte{bs("getrange"), bs("k"), bs("0"), bs("-1")}
	case 2:
		read = [][]byte{bs("mget"), bs("k"), bs("nokey")}
	}
	r := m.ExecCommand(ctx, read, nil)
	before := append([]byte(nil), r.ToBytes()...)
	switch vfChoice("write", 5) {
	case 0:
		hExec(m, bs("setrange"), bs("k"), bs("0"), w)
	case 1:
		hExec(m, bs("setrange"), bs("k"), bs("1"), w[:1])
	case 2:
		hExec(m, bs("append"), bs("k"), w)
	case 3:
		hExec(m, bs("set"), bs("k"), w)
	case 4:
		hExec(m, bs("del"), bs("k"))
	}
	vfAssert(vfBytesEq(before, r.ToBytes()), "reply-changed-by-a-later-write")
}
