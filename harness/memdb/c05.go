//go:build verif

package memdb

// C05: concurrent clients observe linearizable single-key operations.
// Two threads run one command each against the real executors, locks and sharded map; the scheduler
// pre-empts at every synchronisation operation (bounded). Obligations on every schedule:
//   - no data race (lockset + fork/join discipline on every memory slot and map touched),
//   - no panic, no deadlock,
//   - the two replies and the resulting keyspace equal those of running the commands one after the
//     other in one of the two orders (the twin runs are the oracle),
//   - the key counter and KEYS listing agree with the shard contents at quiescence.

import "context"

type c05Case struct {
	name string
	seed [][]string
	c1   []string
	c2   []string
}

var c05Cases = []c05Case{
	{"incr-incr", [][]string{{"set", "k", "5"}}, []string{"incr", "k"}, []string{"incr", "k"}},
	{"incrby-get", [][]string{{"set", "k", "5"}}, []string{"incrby", "k", "3"}, []string{"get", "k"}},
	{"append-append", [][]string{{"set", "k", "x"}}, []string{"append", "k", "A"}, []string{"append", "k", "B"}},
	{"setnx-setnx", nil, []string{"setnx", "k", "A"}, []string{"setnx", "k", "B"}},
	{"set-del", [][]string{{"set", "k", "x"}}, []string{"set", "k", "A"}, []string{"del", "k"}},
	{"set-get-fresh", nil, []string{"set", "k", "A"}, []string{"get", "k"}},
	{"lpush-lpop", [][]string{{"rpush", "k", "e"}}, []string{"lpush", "k", "A"}, []string{"lpop", "k"}},
	{"rpush-lrange", [][]string{{"rpush", "k", "e"}}, []string{"rpush", "k", "A"}, []string{"lrange", "k", "0", "-1"}},
	{"lpop-lpop-one-element", [][]string{{"rpush", "k", "e"}}, []string{"lpop", "k"}, []string{"lpop", "k"}},
	{"sadd-srem", [][]string{{"sadd", "k", "m"}}, []string{"sadd", "k", "A"}, []string{"srem", "k", "m"}},
	{"sadd-scard", [][]string{{"sadd", "k", "m"}}, []string{"sadd", "k", "A"}, []string{"scard", "k"}},
	{"hset-hget", [][]string{{"hset", "k", "f", "v"}}, []string{"hset", "k", "f", "A"}, []string{"hget", "k", "f"}},
	{"hincrby-hincrby", [][]string{{"hset", "k", "f", "1"}}, []string{"hincrby", "k", "f", "2"}, []string{"hincrby", "k", "f", "3"}},
	{"zadd-zrange", [][]string{{"zadd", "k", "1", "m"}}, []string{"zadd", "k", "2", "A"}, []string{"zrange", "k", "0", "-1"}},
	{"zadd-zrem", [][]string{{"zadd", "k", "1", "m", "2", "n"}}, []string{"zadd", "k", "3", "m"}, []string{"zrem", "k", "n"}},
	{"xadd-xrange", [][]string{{"xadd", "k", "1-1", "f", "v"}}, []string{"xadd", "k", "2-1", "f", "A"}, []string{"xrange", "k", "-", "+"}},
	// bookkeeping shared by all keys: the sharded map's key counter and listing
	{"set-set-distinct-keys", nil, []string{"set", "k", "A"}, []string{"set", "j", "B"}},
	{"set-keys", [][]string{{"set", "j", "x"}}, []string{"set", "k", "A"}, []string{"keys", "*"}},
	{"del-keys", [][]string{{"set", "j", "x"}, {"set", "k", "y"}}, []string{"del", "k"}, []string{"keys", "*"}},
	{"set-exists", nil, []string{"set", "k", "A"}, []string{"exists", "j", "k"}},
	{"rpush-del-other", [][]string{{"set", "j", "x"}}, []string{"rpush", "k", "A"}, []string{"del", "j"}},
}

func c05Args(c []string, sym []byte) [][]byte {
	var out [][]byte
	for _, a := range c {
		switch a {
		case "A":
			out = append(out, sym)
		case "B":
			out = append(out, append([]byte{'b'}, sym...))
		default:
			out = append(out, bs(a))
		}
	}
	return out
}

func c05Seed(m *MemDb, c c05Case) {
	for _, s := range c.seed {
		var args [][]byte
		for _, a := range s {
			args = append(args, bs(a))
		}
		hExec(m, args...)
	}
}

func c05Same(m1, m2 *MemDb) bool {
	ok := true
	for _, k := range []string{"k", "j"} {
		ok = vfAnd(ok, viewsEq(c06View(m1, k), c06View(m2, k)))
	}
	return ok
}

func c05Reply(a, b rv) bool {
	// unordered multi-bulk replies (KEYS) compared as multisets
	ga, oka := arrBulks(a)
	gb, okb := arrBulks(b)
	if oka && okb {
		return permBytes(ga, gb)
	}
	return rvEq2(a, b)
}

func c05Run(lo, hi int) {
	if hi > len(c05Cases) {
		hi = len(c05Cases)
	}
	c := c05Cases[lo+vfChoice("case", hi-lo)]
	sym := vfBytes("v", 1, 1)
	a1, a2 := c05Args(c.c1, sym), c05Args(c.c2, sym)
	// sequential oracles: c1;c2 and c2;c1 on twin keyspaces
	ab := hNewDb(2)
	c05Seed(ab, c)
	ab1 := hExec(ab, a1...)
	ab2 := hExec(ab, a2...)
	ba := hNewDb(2)
	c05Seed(ba, c)
	ba2 := hExec(ba, a2...)
	ba1 := hExec(ba, a1...)
	// the concurrent run
	m := hNewDb(2)
	c05Seed(m, c)
	vfOpt("concurrent", 1)
	vfOpt("preempt", c05Preempt)
	vfOpt("racecheck", 1)
	ctx := context.Background()
	var r1, r2 rv
	vfSpawn(func() { r1 = dec(m.ExecCommand(ctx, a1, nil)) })
	vfSpawn(func() { r2 = dec(m.ExecCommand(ctx, a2, nil)) })
	vfWaitAll()
	vfOpt("racecheck", 0)
	vfOpt("concurrent", 0)
	okAB := vfAnd(vfAnd(c05Reply(r1, ab1), c05Reply(r2, ab2)), c05Same(m, ab))
	okBA := vfAnd(vfAnd(c05Reply(r1, ba1), c05Reply(r2, ba2)), c05Same(m, ba))
	vfAssert(vfOr(okAB, okBA), c.name+"-linearizable")
	vfAssert(vfLocksHeld() == 0, c.name+"-no-lock-left")
	vfAssert(m.db.Len() == int64(hCountKeys(m)), c.name+"-key-counter-consistent")
	vfAssert(len(m.db.Keys()) == hCountKeys(m), c.name+"-keys-listing-consistent")
}

var c05Preempt = 2

func VF_C05_pairs_a_quick() { c05Preempt = 2; c05Run(0, 8) }
func VF_C05_pairs_b_quick() { c05Preempt = 2; c05Run(8, 16) }
func VF_C05_pairs_c_quick() { c05Preempt = 2; c05Run(16, 100) }

func VF_C05_pairs_a_thorough() { c05Preempt = 3; c05Run(0, 8) }
func VF_C05_pairs_b_thorough() { c05Preempt = 3; c05Run(8, 16) }
func VF_C05_pairs_c_thorough() { c05Preempt = 3; c05Run(16, 100) }
