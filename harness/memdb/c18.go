//go:build verif

package memdb

// C18: stream IDs are strictly increasing and XRANGE returns what was added.
// IDs are symbolic at byte level: "<T>-<S>" with T and S symbolic single digits (all relative orders
// of times and sequence numbers arise), the clock is a symbolic second 0..9 (so an automatic ID can be
// behind, equal to or ahead of the top entry), field values are symbolic bytes.

import "strconv"

type sentry struct {
	t, s   int64
	fields [][]byte
}

func idText(t, s int64) []byte {
	return []byte{byte('0' + t), '-', byte('0' + s)}
}

// idParse reads "<ms>-<seq>" (reference reader for IDs in replies)
func idParse(b []byte) (t, s int64, ok bool) {
	dash := -1
	for i, c := range b {
		if c == '-' {
			dash = i
			break
		}
	}
	if dash <= 0 || dash == len(b)-1 {
		return 0, 0, false
	}
	t, err1 := strconv.ParseInt(string(b[:dash]), 10, 64)
	s, err2 := strconv.ParseInt(string(b[dash+1:]), 10, 64)
	return t, s, err1 == nil && err2 == nil
}

func idLess(t1, s1, t2, s2 int64) bool { return t1 < t2 || (t1 == t2 && s1 < s2) }

func digit(name string) int64 {
	d := vfInt64(name)
	vfAssume(d >= 0 && d <= 9)
	return d
}

// c18Pre: stream "x" missing, or holding a window of 1..max consecutive entries of a fixed increasing
// ID list (concrete IDs: the symbolic part of each harness is the new ID / the range bounds and the
// field bytes), built through the real XADD and read back.
var c18IDs = [][2]int64{{0, 1}, {1, 0}, {1, 1}, {2, 0}, {2, 2}, {3, 1}}

func c18Pre(m *MemDb, max int) (entries []sentry, exists bool) {
	n := vfChoice("pre.n", max+1)
	if n == 0 {
		return nil, false
	}
	off := vfChoice("pre.off", len(c18IDs)-n+1)
	for i := 0; i < n; i++ {
		nm := "pre.e" + string(rune('0'+i))
		t, s := c18IDs[off+i][0], c18IDs[off+i][1]
		f := vfBytes(nm+".v", 1, 1)
		r := hExec(m, bs("xadd"), bs("x"), idText(t, s), bs("f"), f)
		vfAssert(r.k == rBulk, "stream-pre-state-built")
		entries = append(entries, sentry{t, s, [][]byte{bs("f"), f}})
	}
	return entries, true
}

// c18ReadBack: XRANGE - + returns exactly the model's entries, in ID order, with their fields
func c18ReadBack(m *MemDb, entries []sentry, exists bool, label string) {
	v, ok := hGet(m, "x")
	if !exists {
		vfAssert(!ok, label+"-no-key-created")
		vfAssert(rvEq(hExec(m, bs("xrange"), bs("x"), bs("-"), bs("+")), vArr(nil)), label+"-missing-stream-reads-empty")
		_, ok2 := hGet(m, "x")
		vfAssert(!ok2, label+"-reading-a-missing-stream-creates-nothing")
		return
	}
	vfAssert(ok, label+"-key-present")
	_, isS := v.(*Stream)
	vfAssert(isS, label+"-is-stream")
	got := hExec(m, bs("xrange"), bs("x"), bs("-"), bs("+"))
	vfAssert(got.k == rArr && len(got.a) == len(entries), label+"-xrange-all-count")
	for i, e := range entries {
		it := got.a[i]
		vfAssert(it.k == rArr && len(it.a) == 2 && it.a[1].k == rArr, label+"-xrange-entry-shape")
		t, s, okID := idParse(it.a[0].b)
		vfAssert(okID && t == e.t && s == e.s, label+"-xrange-entry-id")
		vfAssert(len(it.a[1].a) == len(e.fields), label+"-xrange-entry-field-count")
		for k := range e.fields {
			vfAssert(vfBytesEq(it.a[1].a[k].b, e.fields[k]), label+"-xrange-entry-fields")
		}
	}
}

func VF_C18_xadd() {
	m := hNewDb(2)
	entries, exists := c18Pre(m, 2)
	clk := int64(vfChoice("clock", 4)) // seconds: the auto ID's time part is clk*1000 ms
	vfFreezeClock(clk)
	var top *sentry
	if len(entries) > 0 {
		top = &entries[len(entries)-1]
	}
	args := [][]byte{bs("xadd"), bs("x")}
	// options
	opt := vfChoice("opt", 5)
	var maxlen int64 = -1
	var minT, minS int64 = -1, 0
	switch opt {
	case 1:
		args = append(args, vfCase("nomk", "nomkstream"))
	case 2:
		maxlen = int64(vfChoice("maxlen", 3))
		args = append(args, vfCase("ml", "maxlen"))
		if vfBool("eq") {
			args = append(args, bs("="))
		}
		args = append(args, []byte{byte('0' + maxlen)})
	case 3:
		minT, minS = digit("minid.t"), digit("minid.s")
		args = append(args, vfCase("mi", "minid"), idText(minT, minS))
	case 4:
		minT = digit("minid.t")
		args = append(args, bs("MINID"), []byte{byte('0' + minT)})
	}
	// ID form
	form := vfChoice("idform", 5)
	var et, es int64
	reject := false
	ms := clk * 1000
	switch form {
	case 0: // *
		args = append(args, bs("*"))
		et = ms
		if top != nil && et < top.t {
			et = top.t // clock behind: the sequence is bumped
		}
		es = 0
		if top != nil && et == top.t {
			es = top.s + 1
		} else if et == 0 {
			es = 1
		}
	case 1: // T-S
		et, es = digit("id.t"), digit("id.s")
		args = append(args, idText(et, es))
		if et == 0 && es == 0 {
			reject = true
		}
		if top != nil && !idLess(top.t, top.s, et, es) {
			reject = true
		}
	case 2: // T-*
		et = digit("id.t")
		args = append(args, []byte{byte('0' + et), '-', '*'})
		es = 0
		if top != nil && et == top.t {
			es = top.s + 1
		} else if top != nil && et < top.t {
			reject = true
		} else if et == 0 {
			es = 1
		}
	case 3: // T alone = T-0
		et = digit("id.t")
		args = append(args, []byte{byte('0' + et)})
		es = 0
		if et == 0 || (top != nil && !idLess(top.t, top.s, et, es)) {
			reject = true
		}
	case 4: // malformed
		bad := []string{"-", "5-", "a-1", "1-2-3", "-1-1", "1--1", ""}
		args = append(args, bs(bad[vfChoice("bad", len(bad))]))
		reject = true
	}
	fv := vfBytes("fv", 0, 1)
	args = append(args, bs("g"), fv)
	got := hExec(m, args...)
	if opt == 1 && !exists {
		// NOMKSTREAM on a missing key: nil, nothing created (an invalid ID may also be reported)
		vfAssert(got.k == rNil || (reject && got.k == rErr), "xadd-nomkstream-missing-reply")
		c18ReadBack(m, entries, exists, "xadd-nomkstream")
		return
	}
	switch {
	case reject:
		vfAssert(got.k == rErr, "xadd-rejected-id-reply")
		c18ReadBack(m, entries, exists, "xadd-rejected-changes-nothing")
		return
	}
	t, s, okID := idParse(got.b)
	vfAssert(got.k == rBulk && okID, "xadd-reply-is-an-id")
	if form == 0 && !vfIsSymbolic() {
		// native replay: the automatic ID comes from the real clock, only its order can be checked
		et, es = t, s
	}
	vfAssert(t == et && s == es, "xadd-reply-id-value")
	if top != nil {
		vfAssert(idLess(top.t, top.s, t, s), "xadd-id-greater-than-all-previous")
	}
	entries = append(entries, sentry{et, es, [][]byte{bs("g"), fv}})
	// trimming removes only the oldest entries, down to the bound
	if maxlen >= 0 {
		for int64(len(entries)) > maxlen {
			entries = entries[1:]
		}
	}
	if minT >= 0 {
		for len(entries) > 0 && idLess(entries[0].t, entries[0].s, minT, minS) {
			entries = entries[1:]
		}
	}
	c18ReadBack(m, entries, true, "xadd")
	vfAssert(vfLocksHeld() == 0, "xadd-no-lock-left")
}

func VF_C18_xrange() {
	m := hNewDb(2)
	entries, exists := c18Pre(m, 3)
	// bounds
	var lt, ls, ht, hs int64
	var lo, hi []byte
	switch vfChoice("lo", 3) {
	case 0:
		lo, lt, ls = bs("-"), 0, 0
	case 1:
		lt = digit("lo.t")
		lo, ls = []byte{byte('0' + lt)}, 0
	default:
		lt, ls = digit("lo.t"), digit("lo.s")
		lo = idText(lt, ls)
	}
	switch vfChoice("hi", 3) {
	case 0:
		hi, ht, hs = bs("+"), 9223372036854775807, 9223372036854775807
	case 1:
		ht = digit("hi.t")
		hi, hs = []byte{byte('0' + ht)}, 9223372036854775807
	default:
		ht, hs = digit("hi.t"), digit("hi.s")
		hi = idText(ht, hs)
	}
	got := hExec(m, bs("XRange"), bs("x"), lo, hi)
	var want []sentry
	for _, e := range entries {
		if !idLess(e.t, e.s, lt, ls) && !idLess(ht, hs, e.t, e.s) {
			want = append(want, e)
		}
	}
	vfAssert(got.k == rArr && len(got.a) == len(want), "xrange-count-inclusive-bounds")
	for i, e := range want {
		it := got.a[i]
		vfAssert(it.k == rArr && len(it.a) == 2 && it.a[1].k == rArr, "xrange-entry-shape")
		t, s, okID := idParse(it.a[0].b)
		vfAssert(okID && t == e.t && s == e.s, "xrange-entry-id-in-order")
		vfAssert(len(it.a[1].a) == 2 && vfBytesEq(it.a[1].a[1].b, e.fields[1]), "xrange-entry-fields")
	}
	c18ReadBack(m, entries, exists, "xrange-is-read-only")
}

func VF_C18_types_and_arity() {
	m := hNewDb(2)
	m.db.Set("x", []byte("str"))
	vfAssert(isWrongType(hExec(m, bs("xadd"), bs("x"), bs("1-1"), bs("f"), bs("v"))), "xadd-wrongtype")
	vfAssert(isWrongType(hExec(m, bs("xrange"), bs("x"), bs("-"), bs("+"))), "xrange-wrongtype")
	// argument vectors that end inside the option walk are rejected, never indexed past
	tails := [][]string{{"maxlen"}, {"maxlen", "~"}, {"minid"}, {"minid", "="}, {"limit"}, {"nomkstream"}, {"nomkstream", "maxlen", "5"},
		{"maxlen", "5", "*"}, {"maxlen", "5", "*", "f"}, {"~", "1-1", "f", "v"}, {"limit", "5", "1-1", "f", "v"}}
	tl := tails[vfChoice("tail", len(tails))]
	args := [][]byte{bs("xadd"), bs("y")}
	for _, w := range tl {
		args = append(args, bs(w))
	}
	// pad to the minimum arity with the tail's own last word repeated (arity check passes, the walk must not)
	for len(args) < 5 {
		args = append(args, bs(tl[len(tl)-1]))
	}
	got := hExec(m, args...)
	vfAssert(got.k == rErr, "xadd-incomplete-options-rejected")
	_, ok := hGet(m, "y")
	vfAssert(!ok, "xadd-rejected-creates-nothing")
	vfAssert(vfLocksHeld() == 0, "xadd-rejected-no-lock-left")
}

// ---------------------------------------------------------------------------
// VF_C18_sequence_limit: the top entry's sequence number is at or next to the largest representable one
// and its millisecond is ahead of (or equal to) the clock: an automatic ID is either refused or strictly
// greater than the top ID - it never wraps around.
func VF_C18_sequence_limit() {
	m := hNewDb(2)
	top := int64(9223372036854775807) - int64(vfChoice("below-max", 3))
	ms := int64(9000000000000000) // far ahead of any clock reading
	r := hExec(m, bs("xadd"), bs("x"), []byte(strconv.FormatInt(ms, 10)+"-"+strconv.FormatInt(top, 10)), bs("f"), bs("v"))
	vfAssert(r.k == rBulk, "limit-setup")
	var id []byte
	switch vfChoice("form", 2) {
	case 0:
		id = bs("*")
	case 1:
		id = []byte(strconv.FormatInt(ms, 10) + "-*")
	}
	r2 := hExec(m, bs("xadd"), bs("x"), id, bs("g"), bs("w"))
	if r2.k == rBulk {
		t, s, ok := idParse(r2.b)
		vfAssert(ok, "limit-id-text")
		vfAssert(idLess(ms, top, t, s), "automatic-id-not-greater-than-top")
		vfAssert(s >= 0 && t >= 0, "automatic-id-negative-component")
	} else {
		// refused: only legitimate when no greater ID with this millisecond exists
		vfAssert(r2.k == rErr, "limit-refusal-is-an-error")
		vfAssert(top == 9223372036854775807, "automatic-id-refused-although-a-successor-exists")
	}
	// the stream still lists its entries in increasing ID order
	rr := hExec(m, bs("xrange"), bs("x"), bs("-"), bs("+"))
	vfAssert(rr.k == rArr && len(rr.a) >= 1, "limit-xrange")
	var pt, ps int64 = -1, -1
	for _, e := range rr.a {
		if e.k == rArr && len(e.a) == 2 {
			t, s, ok := idParse(e.a[0].b)
			vfAssert(ok && idLess(pt, ps, t, s), "limit-xrange-order")
			pt, ps = t, s
		}
	}
}
