//go:build verif

package memdb

// C11: set commands against exact set algebra (one-step inductive harnesses).

type sstate struct {
	kind int // kMissing / kHere / kWrong
	mem  [][]byte
}

func setRead(s *Set) [][]byte {
	var out [][]byte
	for k := range s.table {
		out = append(out, []byte(k))
	}
	return out
}

func hasMem(mem [][]byte, x []byte) bool {
	for _, e := range mem {
		if vfBytesEq(e, x) {
			return true
		}
	}
	return false
}

func addMem(mem [][]byte, x []byte) [][]byte {
	if hasMem(mem, x) {
		return mem
	}
	return append(append([][]byte(nil), mem...), x)
}

func delMem(mem [][]byte, x []byte) [][]byte {
	var out [][]byte
	for _, e := range mem {
		if !vfBytesEq(e, x) {
			out = append(out, e)
		}
	}
	return out
}

// c11Pre: key missing / set of 1..max members (distinct symbolic 0..1-byte members, the empty
// string included) / another type.
func c11Pre(m *MemDb, key, name string, max int) sstate {
	switch vfChoice(name+".kind", 3) {
	case kMissing:
		return sstate{kind: kMissing}
	case kWrong:
		m.db.Set(key, []byte("str"))
		return sstate{kind: kWrong}
	}
	n := 1 + vfChoice(name+".n", max)
	s := NewSet()
	var mem [][]byte
	for i := 0; i < n; i++ {
		e := vfBytes(name+".m"+string(rune('0'+i)), 0, 1)
		vfAssume(!hasMem(mem, e))
		s.Add(string(e))
		mem = append(mem, e)
	}
	m.db.Set(key, s)
	vfAssert(permBytes(setRead(s), mem), "set-pre-state-built")
	return sstate{kind: kHere, mem: mem}
}

func c11Post(m *MemDb, key string, want sstate, label string) {
	v, ok := hGet(m, key)
	switch want.kind {
	case kWrong:
		b, isB := v.([]byte)
		vfAssert(ok && isB && string(b) == "str", label+"-wrongtype-untouched")
	case kMissing:
		vfAssert(!ok, label+"-key-absent")
	default:
		if len(want.mem) == 0 {
			vfAssert(!ok, label+"-empty-set-key-removed")
			return
		}
		vfAssert(ok, label+"-key-present")
		s, isS := v.(*Set)
		vfAssert(isS, label+"-is-set")
		vfAssert(permBytes(setRead(s), want.mem), label+"-content")
	}
}

func c11ReplyMembers(got rv, want [][]byte, label string) {
	g, ok := arrBulks(got)
	vfAssert(ok, label+"-reply-kind")
	vfAssert(permBytes(g, want), label+"-reply-members")
}

func VF_C11_sadd_srem() {
	m := hNewDb(2)
	st := c11Pre(m, "k", "s", 2)
	rem := vfBool("srem")
	n := 1 + vfChoice("nargs", 2)
	name := "sadd"
	if rem {
		name = "srem"
	}
	args := [][]byte{bs(name), bs("k")}
	want := st
	cnt := int64(0)
	for i := 0; i < n; i++ {
		x := vfBytes("x"+string(rune('0'+i)), 0, 1)
		args = append(args, x)
		if st.kind == kWrong {
			continue
		}
		if rem {
			if hasMem(want.mem, x) {
				cnt++
				want = sstate{kind: kHere, mem: delMem(want.mem, x)}
			}
		} else {
			if !hasMem(want.mem, x) {
				cnt++
			}
			want = sstate{kind: kHere, mem: addMem(want.mem, x)}
		}
	}
	if rem && st.kind == kMissing {
		want = st
	}
	got := hExec(m, args...)
	if st.kind == kWrong {
		vfAssert(isWrongType(got), name+"-wrongtype-reply")
	} else {
		vfAssert(rvEq(got, vInt(cnt)), name+"-reply")
	}
	c11Post(m, "k", want, name)
	vfAssert(vfLocksHeld() == 0, name+"-no-lock-left")
}

func VF_C11_scard_sismember_smembers() {
	m := hNewDb(2)
	st := c11Pre(m, "k", "s", 3)
	x := vfBytes("x", 0, 1)
	if st.kind == kWrong {
		vfAssert(isWrongType(hExec(m, bs("scard"), bs("k"))), "scard-wrongtype-reply")
		vfAssert(isWrongType(hExec(m, bs("sismember"), bs("k"), x)), "sismember-wrongtype-reply")
		vfAssert(isWrongType(hExec(m, bs("smembers"), bs("k"))), "smembers-wrongtype-reply")
		return
	}
	vfAssert(rvEq(hExec(m, bs("scard"), bs("k")), vInt(int64(len(st.mem)))), "scard-reply")
	is := int64(0)
	if hasMem(st.mem, x) {
		is = 1
	}
	vfAssert(rvEq(hExec(m, bs("sismember"), bs("k"), x), vInt(is)), "sismember-reply")
	got := hExecPerm(m, bs("smembers"), bs("k"))
	// framing (bulk vs simple string) is C03's subject: members are compared as bytes
	vfAssert(got.k == rArr && len(got.a) == len(st.mem), "smembers-reply-shape")
	var g [][]byte
	for _, e := range got.a {
		g = append(g, e.b)
	}
	vfAssert(permBytes(g, st.mem), "smembers-reply-members")
	c11Post(m, "k", st, "sread")
}

func VF_C11_spop() {
	m := hNewDb(2)
	st := c11Pre(m, "k", "s", 3)
	withCount := vfBool("withcount")
	var got rv
	var cnt int64 = 1
	if withCount {
		cnt = vfInt64("count")
		got = hExecPerm(m, bs("spop"), bs("k"), vfNumStr(cnt))
	} else {
		got = hExecPerm(m, bs("spop"), bs("k"))
	}
	if withCount && cnt < 0 {
		vfAssert(got.k == rErr, "spop-negative-count-reply")
		c11Post(m, "k", st, "spop-negative-count")
		return
	}
	if st.kind == kWrong {
		vfAssert(isWrongType(got), "spop-wrongtype-reply")
		c11Post(m, "k", st, "spop")
		return
	}
	var popped [][]byte
	if !withCount {
		if st.kind == kMissing {
			vfAssert(got.k == rNil, "spop-missing-reply")
		} else {
			vfAssert(got.k == rBulk, "spop-reply-kind")
			popped = [][]byte{got.b}
		}
	} else {
		if st.kind == kMissing {
			vfAssert(got.k == rNil || (got.k == rArr && len(got.a) == 0), "spop-count-missing-reply")
		} else {
			g, ok := arrBulks(got)
			vfAssert(ok, "spop-count-reply-kind")
			exp := int64(len(st.mem))
			if cnt < exp {
				exp = cnt
			}
			vfAssert(int64(len(g)) == exp, "spop-count-number-popped")
			popped = g
		}
	}
	// exactly the returned members are removed; they were members; no duplicates
	rest := st.mem
	for i, p := range popped {
		vfAssert(hasMem(st.mem, p), "spop-returns-a-member")
		for j := 0; j < i; j++ {
			vfAssert(!vfBytesEq(popped[j], p), "spop-returns-distinct-members")
		}
		rest = delMem(rest, p)
	}
	want := st
	if st.kind == kHere {
		want = sstate{kind: kHere, mem: rest}
	}
	c11Post(m, "k", want, "spop")
	vfAssert(vfLocksHeld() == 0, "spop-no-lock-left")
}

func VF_C11_srandmember() {
	m := hNewDb(2)
	st := c11Pre(m, "k", "s", 3)
	withCount := vfBool("withcount")
	var got rv
	var cnt int64
	if withCount {
		cnt = vfInt64("count")
		vfAssume(cnt > -5 && cnt < 6) // larger |count| only repeats the loop: C04's subject
		got = hExecPerm(m, bs("srandmember"), bs("k"), vfNumStr(cnt))
	} else {
		got = hExecPerm(m, bs("srandmember"), bs("k"))
	}
	if st.kind == kWrong {
		vfAssert(isWrongType(got), "srandmember-wrongtype-reply")
		return
	}
	n := int64(len(st.mem))
	if !withCount {
		if n == 0 {
			vfAssert(got.k == rNil, "srandmember-missing-reply")
		} else {
			vfAssert((got.k == rBulk || got.k == rStatus) && hasMem(st.mem, got.b), "srandmember-nocount-reply")
		}
		c11Post(m, "k", st, "srandmember")
		return
	}
	exp := cnt
	if cnt > n {
		exp = n
	}
	if cnt < 0 {
		exp = -cnt
		if n == 0 {
			exp = 0
		}
	}
	if exp == 0 {
		vfAssert(got.k == rNil || (got.k == rArr && len(got.a) == 0), "srandmember-empty-reply")
		c11Post(m, "k", st, "srandmember")
		return
	}
	vfAssert(got.k == rArr && int64(len(got.a)) == exp, "srandmember-count")
	for i, e := range got.a {
		vfAssert(hasMem(st.mem, e.b), "srandmember-returns-a-member")
		if cnt > 0 {
			for j := 0; j < i; j++ {
				vfAssert(!vfBytesEq(got.a[j].b, e.b), "srandmember-positive-count-distinct")
			}
		}
	}
	c11Post(m, "k", st, "srandmember")
}

func VF_C11_smove() {
	m := hNewDb(2)
	same := vfBool("samekey")
	src, dst := "a", "b"
	if same {
		dst = "a"
	}
	ss := c11Pre(m, src, "src", 2)
	ds := ss
	if !same {
		ds = c11Pre(m, dst, "dst", 2)
	}
	x := vfBytes("x", 0, 1)
	got := hExec(m, bs("smove"), bs(src), bs(dst), x)
	wantS, wantD := ss, ds
	switch {
	case ss.kind == kWrong || (ss.kind == kHere && ds.kind == kWrong):
		vfAssert(isWrongType(got), "smove-wrongtype-reply")
	case ss.kind == kMissing || !hasMem(ss.mem, x):
		vfAssert(rvEq(got, vInt(0)), "smove-not-a-member-reply")
	default:
		vfAssert(rvEq(got, vInt(1)), "smove-reply")
		if !same {
			wantS = sstate{kind: kHere, mem: delMem(ss.mem, x)}
			wantD = sstate{kind: kHere, mem: addMem(ds.mem, x)}
		}
	}
	c11Post(m, src, wantS, "smove-src")
	if !same {
		c11Post(m, dst, wantD, "smove-dst")
	}
	vfAssert(vfLocksHeld() == 0, "smove-no-lock-left")
}

const (
	opDiff = iota
	opInter
	opUnion
)

func refAlgebra(op int, a, b [][]byte) [][]byte {
	var out [][]byte
	switch op {
	case opDiff:
		for _, e := range a {
			if !hasMem(b, e) {
				out = append(out, e)
			}
		}
	case opInter:
		for _, e := range a {
			if hasMem(b, e) {
				out = append(out, e)
			}
		}
	default:
		out = append(out, a...)
		for _, e := range b {
			if !hasMem(out, e) {
				out = append(out, e)
			}
		}
	}
	return out
}

// c11Algebra: <op> a b  /  <op>STORE d a b, with b possibly the same key as a, d possibly a or b.
func c11Algebra(op int, store bool) {
	m := hNewDb(2)
	names := []string{"sdiff", "sinter", "sunion"}
	name := names[op]
	sa := c11Pre(m, "a", "a", 2)
	bSame := vfBool("b_is_a")
	sb := sa
	kb := "a"
	if !bSame {
		kb = "b"
		sb = c11Pre(m, "b", "b", 2)
	}
	one := vfBool("one_operand")
	var res [][]byte
	wrong := sa.kind == kWrong || (!one && sb.kind == kWrong)
	if one {
		res = sa.mem
	} else {
		res = refAlgebra(op, sa.mem, sb.mem) // a missing key is the empty set
	}
	// optional third operand "c": a set {q, <sym>} that may overlap a and b, or missing
	third := !one && !bSame && vfBool("third_operand")
	var sc sstate
	if third {
		if vfBool("c.exists") {
			x := vfBytes("c.m0", 0, 1)
			s3 := NewSet()
			s3.Add(string(x))
			m.db.Set("c", s3)
			sc = sstate{kind: kHere, mem: [][]byte{x}}
		}
		res = refAlgebra(op, res, sc.mem)
	}
	if !store {
		args := [][]byte{bs(name), bs("a")}
		if !one {
			args = append(args, bs(kb))
		}
		if third {
			// the third operand goes last, or between a and b
			if vfBool("c.in_the_middle") {
				args = [][]byte{bs(name), bs("a"), bs("c"), bs(kb)}
			} else {
				args = append(args, bs("c"))
			}
		}
		var got rv
		if third {
			got = hExec(m, args...) // three operands: one (deterministic) iteration order
		} else {
			got = hExecPerm(m, args...)
		}
		if wrong {
			vfAssert(isWrongType(got), name+"-wrongtype-reply")
		} else {
			c11ReplyMembers(got, res, name)
		}
		c11Post(m, "a", sa, name+"-a")
		if !bSame {
			c11Post(m, "b", sb, name+"-b")
		}
		vfAssert(vfLocksHeld() == 0, name+"-no-lock-left")
		return
	}
	name += "store"
	// destination: a fresh key "d" (missing / set / other type), or one of the operands
	dk := "d"
	var sd sstate
	switch vfChoice("dest", 3) {
	case 0:
		sd = c11Pre(m, "d", "d", 1)
	case 1:
		dk, sd = "a", sa
	default:
		dk, sd = kb, sb
	}
	args := [][]byte{bs(name), bs(dk), bs("a")}
	if !one {
		args = append(args, bs(kb))
	}
	if third {
		if vfBool("c.in_the_middle") {
			args = [][]byte{bs(name), bs(dk), bs("a"), bs("c"), bs(kb)}
		} else {
			args = append(args, bs("c"))
		}
	}
	var got rv
	if third {
		got = hExec(m, args...)
	} else {
		got = hExecPerm(m, args...)
	}
	if wrong {
		vfAssert(isWrongType(got), name+"-wrongtype-reply")
		c11Post(m, "a", sa, name+"-a")
		c11Post(m, dk, sd, name+"-dest-unchanged")
		return
	}
	// STORE replaces the destination whatever it held, and deletes it when the result is empty
	vfAssert(rvEq(got, vInt(int64(len(res)))), name+"-reply")
	c11Post(m, dk, sstate{kind: kHere, mem: res}, name+"-dest")
	// the stored result is its own object: later writes to one key must not show through another
	if dv, ok := hGet(m, dk); ok {
		for _, ok2 := range []string{"a", "b", "c", "d"} {
			if ok2 == dk {
				continue
			}
			if ov, has := hGet(m, ok2); has {
				ds, isD := dv.(*Set)
				os, isO := ov.(*Set)
				if isD && isO {
					vfAssert(ds != os, name+"-dest-does-not-alias-an-operand")
				}
			}
		}
	}
	if dk != "a" {
		c11Post(m, "a", sa, name+"-a")
	}
	if !bSame && dk != "b" {
		c11Post(m, "b", sb, name+"-b")
	}
	vfAssert(vfLocksHeld() == 0, name+"-no-lock-left")
}

func VF_C11_sdiff()       { c11Algebra(opDiff, false) }
func VF_C11_sinter()      { c11Algebra(opInter, false) }
func VF_C11_sunion()      { c11Algebra(opUnion, false) }
func VF_C11_sdiffstore()  { c11Algebra(opDiff, true) }
func VF_C11_sinterstore() { c11Algebra(opInter, true) }
func VF_C11_sunionstore() { c11Algebra(opUnion, true) }
