//go:build verif

package memdb

import "time"

// C06: expiring keys disappear at their deadline and not before.
// Differential oracle: a key with deadline "now + delta" probed by a command at the (frozen,
// symbolic) instant "now" must behave exactly like the same key without a deadline when delta > 0,
// and exactly like a missing key when delta <= 0 - reply and resulting keyspace. No per-command model
// is needed: the twin run on the twin keyspace is the oracle.

type c06Cmd struct {
	typ  byte
	args []string // "k" is the probed key, "j" a second key
}

var c06Cmds = []c06Cmd{
	// strings
	{'s', []string{"get", "k"}}, {'s', []string{"strlen", "k"}}, {'s', []string{"append", "k", "x"}},
	{'s', []string{"getrange", "k", "0", "-1"}}, {'s', []string{"setrange", "k", "1", "z"}},
	{'s', []string{"setnx", "k", "n"}}, {'s', []string{"set", "k", "n", "nx"}}, {'s', []string{"set", "k", "n", "xx"}},
	{'s', []string{"set", "k", "n", "get"}}, {'s', []string{"set", "k", "n", "keepttl"}}, {'s', []string{"mget", "k", "j"}},
	{'s', []string{"exists", "k", "j"}}, {'s', []string{"del", "k"}}, {'s', []string{"del", "j", "k"}}, {'s', []string{"type", "k"}},
	{'s', []string{"rename", "k", "j"}}, {'s', []string{"keys", "*"}},
	{'n', []string{"incr", "k"}}, {'n', []string{"incrby", "k", "2"}}, {'n', []string{"decr", "k"}}, {'n', []string{"decrby", "k", "2"}},
	{'n', []string{"incrbyfloat", "k", "1.5"}},
	// lists
	{'l', []string{"llen", "k"}}, {'l', []string{"lindex", "k", "0"}}, {'l', []string{"lpos", "k", "a"}}, {'l', []string{"lpop", "k"}},
	{'l', []string{"rpop", "k"}}, {'l', []string{"lpush", "k", "x"}}, {'l', []string{"lpushx", "k", "x"}}, {'l', []string{"rpush", "k", "x"}},
	{'l', []string{"rpushx", "k", "x"}}, {'l', []string{"lset", "k", "0", "x"}}, {'l', []string{"lrem", "k", "0", "a"}},
	{'l', []string{"ltrim", "k", "0", "0"}}, {'l', []string{"lrange", "k", "0", "-1"}}, {'l', []string{"lmove", "k", "j", "left", "right"}},
	{'l', []string{"lmove", "j", "k", "left", "right"}},
	// sets
	{'e', []string{"sadd", "k", "x"}}, {'e', []string{"scard", "k"}}, {'e', []string{"sismember", "k", "a"}}, {'e', []string{"smembers", "k"}},
	{'e', []string{"smove", "k", "j", "a"}}, {'e', []string{"spop", "k", "5"}}, {'e', []string{"srandmember", "k", "5"}}, {'e', []string{"srem", "k", "a"}},
	{'e', []string{"sunion", "k", "j"}}, {'e', []string{"sinter", "k", "k"}}, {'e', []string{"sdiff", "k", "j"}}, {'e', []string{"sdiff", "j", "k"}},
	{'e', []string{"sunionstore", "d", "k"}}, {'e', []string{"sinterstore", "d", "k"}}, {'e', []string{"sdiffstore", "d", "k"}},
	{'e', []string{"sunionstore", "k", "j"}},
	// hashes
	{'h', []string{"hdel", "k", "a"}}, {'h', []string{"hexists", "k", "a"}}, {'h', []string{"hget", "k", "a"}}, {'h', []string{"hgetall", "k"}},
	{'h', []string{"hincrby", "k", "a", "1"}}, {'h', []string{"hincrbyfloat", "k", "a", "1"}}, {'h', []string{"hkeys", "k"}}, {'h', []string{"hlen", "k"}},
	{'h', []string{"hmget", "k", "a"}}, {'h', []string{"hset", "k", "b", "2"}}, {'h', []string{"hsetnx", "k", "a", "2"}}, {'h', []string{"hvals", "k"}},
	{'h', []string{"hstrlen", "k", "a"}}, {'h', []string{"hrandfield", "k"}},
	// sorted sets
	{'z', []string{"zadd", "k", "3", "c"}}, {'z', []string{"zrange", "k", "0", "-1"}}, {'z', []string{"zrem", "k", "a"}}, {'z', []string{"zrank", "k", "a"}},
	// streams
	{'x', []string{"xadd", "k", "9-9", "f", "v"}}, {'x', []string{"xrange", "k", "-", "+"}},
}

// c06Build installs key "k" of the given type (or nothing) and the bystander key "j" (a list for list
// commands, a set for set commands, a string otherwise).
func c06Build(typ byte, withK bool) *MemDb {
	m := hNewDb(2)
	if withK {
		switch typ {
		case 's':
			hExec(m, bs("set"), bs("k"), bs("val"))
		case 'n':
			hExec(m, bs("set"), bs("k"), bs("5"))
		case 'l':
			hExec(m, bs("rpush"), bs("k"), bs("a"), bs("b"))
		case 'e':
			hExec(m, bs("sadd"), bs("k"), bs("a"), bs("b"))
		case 'h':
			hExec(m, bs("hset"), bs("k"), bs("a"), bs("1"))
		case 'z':
			hExec(m, bs("zadd"), bs("k"), bs("1"), bs("a"), bs("2"), bs("b"))
		case 'x':
			hExec(m, bs("xadd"), bs("k"), bs("1-1"), bs("a"), bs("b"))
		}
	}
	switch typ {
	case 'l':
		hExec(m, bs("rpush"), bs("j"), bs("q"))
	case 'e':
		hExec(m, bs("sadd"), bs("j"), bs("a"), bs("q"))
	default:
		hExec(m, bs("set"), bs("j"), bs("w"))
	}
	return m
}

// c06View: an observable digest of one key (type-specific reads through the real executors)
func c06View(m *MemDb, key string) []rv {
	m.CheckTTL(key) // lazy expiry at the frozen instant, as any later command would apply it
	v, ok := hGet(m, key)
	if !ok {
		return []rv{vNil()}
	}
	switch x := v.(type) {
	case []byte:
		return []rv{vStatus("string"), vBulk(x)}
	case *List:
		el, inv := listWalk(x)
		if !inv {
			return []rv{vErr()}
		}
		return []rv{vStatus("list"), vBulks(el)}
	case *Set:
		return []rv{vStatus("set"), vInt(int64(x.Len())), hExec(m, bs("sismember"), bs(key), bs("a")), hExec(m, bs("sismember"), bs(key), bs("b")),
			hExec(m, bs("sismember"), bs(key), bs("x")), hExec(m, bs("sismember"), bs(key), bs("q"))}
	case *Hash:
		return []rv{vStatus("hash"), vInt(int64(x.Len())), hExec(m, bs("hget"), bs(key), bs("a")), hExec(m, bs("hget"), bs(key), bs("b"))}
	}
	return []rv{vStatus("other"), hExec(m, bs("zrange"), bs(key), bs("0"), bs("-1")), hExec(m, bs("xrange"), bs(key), bs("-"), bs("+"))}
}

func viewsEq(a, b []rv) bool {
	if len(a) != len(b) {
		return false
	}
	ok := true
	for i := range a {
		ok = vfAnd(ok, rvEq2(a[i], b[i]))
	}
	return ok
}

// c06Install gives key a deadline. Under gosx through the real SetTTL (the timer goroutine it spawns is not
// run: the schedule "timer has not fired yet" lasts up to a second in reality). Natively an already expired
// deadline is written into the TTL table directly - the same reachable state (deadline reached, timer
// goroutine not yet scheduled), without racing the real timer goroutine during the replay.
func c06Install(m *MemDb, key string, deadline int64, expired bool) bool {
	if vfIsSymbolic() || !expired {
		return m.SetTTL(key, deadline) == 1
	}
	if _, ok := m.db.Get(key); !ok {
		return false
	}
	m.ttlKeys.Set(key, &TTLInfo{value: deadline, cancel: make(chan struct{})})
	return true
}

func c06Probe(lo, hi int) {
	if hi > len(c06Cmds) {
		hi = len(c06Cmds)
	}
	c := c06Cmds[lo+vfChoice("cmd", hi-lo)]
	now := vfClockNow()
	delta := vfInt64("delta")
	vfAssume(delta >= -100000 && delta <= 100000)
	expired := delta <= 0
	// m1: the key with a deadline; m2: the twin (no deadline / no key)
	m1 := c06Build(c.typ, true)
	vfAssert(c06Install(m1, "k", now+delta, expired), "c06-deadline-installed")
	m2 := c06Build(c.typ, !expired)
	var args [][]byte
	for _, a := range c.args {
		args = append(args, bs(a))
	}
	r1 := hExec(m1, args...)
	r2 := hExec(m2, args...)
	name := c.args[0]
	label := "live"
	if expired {
		label = "expired"
	}
	if name == "hrandfield" || name == "spop" || name == "srandmember" || name == "keys" || name == "smembers" || name == "hgetall" || name == "hkeys" || name == "hvals" || name == "sunion" || name == "sdiff" || name == "sinter" {
		// unordered replies: same shape, compared as multisets of bulks
		g1, ok1 := arrBulks(r1)
		g2, ok2 := arrBulks(r2)
		if ok1 && ok2 {
			vfAssert(permBytes(g1, g2), name+"-reply-"+label+"-equals-twin")
		} else {
			vfAssert(rvEq2(r1, r2), name+"-reply-"+label+"-equals-twin")
		}
	} else {
		vfAssert(rvEq2(r1, r2), name+"-reply-"+label+"-equals-twin")
	}
	for _, k := range []string{"k", "j", "d"} {
		vfAssert(viewsEq(c06View(m1, k), c06View(m2, k)), name+"-keyspace-"+label+"-equals-twin")
	}
	// deadline bookkeeping
	_, stillThere := hGet(m1, "k")
	ttl, hasTTL := hHasTTL(m1, "k")
	if !stillThere {
		vfAssert(!hasTTL, name+"-no-deadline-without-key")
	} else if !expired {
		vetoedSet := name == "set" && len(c.args) == 4 && (c.args[3] == "nx" || c.args[3] == "keepttl")
		switch {
		case vetoedSet:
			// SET ... NX on an existing key changes nothing; KEEPTTL keeps the deadline
			vfAssert(hasTTL && ttl == now+delta, name+"-"+c.args[3]+"-deadline-kept")
		case name == "set" || name == "persist" || name == "del" || name == "rename" || name == "mset" || name == "setex" ||
			name == "sunionstore" || name == "sinterstore" || name == "sdiffstore" || name == "lmove" || name == "smove":
			// may legitimately remove or move the deadline (C01 / C13 decide which)
		default:
			vfAssert(hasTTL && ttl == now+delta, name+"-deadline-kept-by-non-overwriting-command")
		}
	}
	vfAssert(vfLocksHeld() == 0, name+"-no-lock-left")
}

func VF_C06_probe_a() { c06Probe(0, 23) }
func VF_C06_probe_b() { c06Probe(23, 38) }
func VF_C06_probe_c() { c06Probe(38, 54) }
func VF_C06_probe_d() { c06Probe(54, 200) }

// TTL: remaining seconds until the deadline, -1 without deadline, -2 for a missing/expired key
func VF_C06_ttl() {
	now := vfClockNow()
	m := hNewDb(2)
	switch vfChoice("state", 3) {
	case 0:
		vfAssert(rvEq(hExec(m, bs("ttl"), bs("k")), vInt(-2)), "ttl-missing-key")
	case 1:
		hExec(m, bs("set"), bs("k"), bs("v"))
		vfAssert(rvEq(hExec(m, bs("TTL"), bs("k")), vInt(-1)), "ttl-no-deadline")
	default:
		hExec(m, bs("set"), bs("k"), bs("v"))
		delta := vfInt64("delta")
		vfAssume(delta >= -100000 && delta <= 100000)
		m.SetTTL("k", now+delta)
		got := hExec(m, bs("ttl"), bs("k"))
		if delta <= 0 {
			vfAssert(rvEq(got, vInt(-2)), "ttl-expired-key")
			_, ok := hGet(m, "k")
			vfAssert(!ok, "ttl-expired-key-removed")
		} else {
			vfAssert(rvEq(got, vInt(delta)), "ttl-remaining-seconds")
		}
	}
}

// EXPIRE with NX/XX/GT/LT (any letter case), PERSIST, and how overwriting commands treat the deadline
func VF_C06_expire() {
	now := vfClockNow()
	m := hNewDb(2)
	hExec(m, bs("rpush"), bs("k"), bs("a"))
	hadTTL := vfBool("had_deadline")
	old := vfInt64("old")
	vfAssume(old > 0 && old <= 100000)
	if hadTTL {
		m.SetTTL("k", now+old)
	}
	secs := vfInt64("seconds")
	vfAssume(secs > 0 && secs <= 100000)
	opt := vfChoice("opt", 5)
	words := []string{"", "nx", "xx", "gt", "lt"}
	args := [][]byte{bs("expire"), bs("k"), vfNumStr(secs)}
	if opt > 0 {
		args = append(args, vfCase("optcase", words[opt]))
	}
	got := hExec(m, args...)
	apply := true
	switch opt {
	case 1:
		apply = !hadTTL
	case 2:
		apply = hadTTL
	case 3:
		apply = hadTTL && secs > old // a key without deadline counts as infinite: GT never applies
	case 4:
		apply = !hadTTL || secs < old // ... and LT always applies
	}
	ttl, has := hHasTTL(m, "k")
	if apply {
		vfAssert(rvEq(got, vInt(1)), "expire-applied-reply")
		vfAssert(has && ttl == now+secs, "expire-deadline-installed")
	} else {
		vfAssert(rvEq(got, vInt(0)), "expire-vetoed-reply")
		if hadTTL {
			vfAssert(has && ttl == now+old, "expire-vetoed-deadline-unchanged")
		} else {
			vfAssert(!has, "expire-vetoed-no-deadline")
		}
	}
	// the key is still there with its value
	vfAssert(rvEq(hExec(m, bs("llen"), bs("k")), vInt(1)), "expire-keeps-the-value")
	// PERSIST removes it
	r := hExec(m, bs("persist"), bs("k"))
	_, has2 := hHasTTL(m, "k")
	if has {
		vfAssert(rvEq(r, vInt(1)) && !has2, "persist-removes-deadline")
	} else {
		vfAssert(rvEq(r, vInt(0)) && !has2, "persist-without-deadline")
	}
}

func VF_C06_expire_missing_or_invalid() {
	vfClockNow()
	m := hNewDb(2)
	vfAssert(rvEq(hExec(m, bs("expire"), bs("nokey"), bs("10")), vInt(0)), "expire-missing-key")
	_, has := hHasTTL(m, "nokey")
	vfAssert(!has, "expire-missing-key-no-deadline")
	hExec(m, bs("set"), bs("k"), bs("v"))
	bad := vfBytes("bad", 1, 2) // an empty option word is read as "no option": not compared
	got := hExec(m, bs("expire"), bs("k"), bs("10"), bad)
	w := string(bad)
	lower := []byte(w)
	for i, c := range lower {
		if c >= 'A' && c <= 'Z' {
			lower[i] = c + 32
		}
	}
	l := string(lower)
	if l != "nx" && l != "xx" && l != "gt" && l != "lt" {
		vfAssert(got.k == rErr, "expire-unknown-option-rejected")
		_, has := hHasTTL(m, "k")
		vfAssert(!has, "expire-unknown-option-no-deadline")
	}
}

// a key without a deadline never expires, whatever the clock reads
func VF_C06_no_deadline() {
	vfClockNow()
	m := c06Build('s', true)
	vfAssert(m.CheckTTL("k"), "no-deadline-checkttl-true")
	vfAssert(rvEq(hExec(m, bs("get"), bs("k")), vBulk(bs("val"))), "no-deadline-still-visible")
}

// the timer goroutine's contract: CheckTTL at an instant before the deadline changes nothing, at or
// after the deadline it removes key and deadline
func VF_C06_checkttl() {
	now := vfClockNow()
	delta := vfInt64("delta")
	vfAssume(delta >= -100000 && delta <= 100000)
	m := c06Build('l', true)
	m.SetTTL("k", now+delta)
	alive := m.CheckTTL("k")
	_, ok := hGet(m, "k")
	_, has := hHasTTL(m, "k")
	if delta > 0 {
		vfAssert(alive && ok && has, "checkttl-before-deadline-keeps")
	} else {
		vfAssert(!alive && !ok && !has, "checkttl-at-deadline-removes")
	}
	vfAssert(vfLocksHeld() == 0, "checkttl-no-lock-left")
}

// ---------------------------------------------------------------------------
// The probed key as the *second* key of a two-key command (destination of RENAME / SMOVE / LMOVE / *STORE,
// later key of MSET / DEL / EXISTS): an expired destination counts as missing, and a live destination's
// deadline is dropped when the value is replaced (RENAME, *STORE, MSET) and kept when it is only modified
// (SMOVE, LMOVE).
type c06DestCmd struct {
	typ      byte
	args     []string
	replaced bool // the command replaces the value of k (its deadline must go)
}

var c06DestCmds = []c06DestCmd{
	{'s', []string{"rename", "j", "k"}, true},
	{'s', []string{"mset", "j", "1", "k", "2"}, true},
	{'e', []string{"smove", "j", "k", "q"}, false},
	{'l', []string{"lmove", "j", "k", "left", "right"}, false},
	{'l', []string{"lmove", "j", "k", "right", "left"}, false},
	{'e', []string{"sunionstore", "k", "j", "j"}, true},
	{'e', []string{"sdiffstore", "k", "j", "nokey"}, true},
	{'e', []string{"sinterstore", "k", "j", "j"}, true},
	{'s', []string{"exists", "j", "k"}, false},
	{'s', []string{"del", "j", "k"}, false},
	{'s', []string{"mget", "j", "k"}, false},
}

func VF_C06_second_key() {
	c := c06DestCmds[vfChoice("cmd", len(c06DestCmds))]
	now := vfClockNow()
	delta := vfInt64("delta")
	vfAssume(delta >= -100000 && delta <= 100000)
	expired := delta <= 0
	m1 := c06Build(c.typ, true)
	vfAssert(c06Install(m1, "k", now+delta, expired), "c06-deadline-installed")
	m2 := c06Build(c.typ, !expired)
	var args [][]byte
	for _, a := range c.args {
		args = append(args, bs(a))
	}
	r1 := hExec(m1, args...)
	r2 := hExec(m2, args...)
	name := c.args[0]
	label := "live"
	if expired {
		label = "expired"
	}
	vfAssert(rvEq2(r1, r2), name+"-second-key-reply-"+label+"-equals-twin")
	for _, k := range []string{"k", "j"} {
		vfAssert(viewsEq(c06View(m1, k), c06View(m2, k)), name+"-second-key-keyspace-"+label+"-equals-twin")
	}
	_, there := hGet(m1, "k")
	ttl, hasTTL := hHasTTL(m1, "k")
	switch {
	case !there:
		vfAssert(!hasTTL, name+"-no-deadline-without-key")
	case expired || c.replaced:
		// a value written onto an expired or replaced key starts without a deadline (the source has none)
		vfAssert(!hasTTL, name+"-new-value-inherited-the-old-deadline")
	case name == "del":
	default:
		vfAssert(hasTTL && ttl == now+delta, name+"-deadline-of-modified-key-kept")
	}
	_, jHas := hHasTTL(m1, "j")
	vfAssert(!jHas, name+"-deadline-moved-to-the-other-key")
	vfAssert(vfLocksHeld() == 0, name+"-no-lock-left")
}

// ---------------------------------------------------------------------------
// VF_C06_stale_timer: the per-key timer goroutine of a deadline that is gone (the key was deleted, or
// overwritten, or made persistent, and possibly created again) must not touch the key when it fires: a key
// without a deadline never disappears. Virtual time: the harness waits on a later timer, so the key's own
// timer fires first. Natively the harness really waits.
func VF_C06_stale_timer() {
	vfOpt("timers", 8)
	vfFreezeClock(1000)
	m := hNewDb(2)
	hExec(m, bs("set"), bs("k"), bs("v1"), bs("ex"), bs("2"))
	switch vfChoice("how-the-deadline-went", 4) {
	case 0:
		hExec(m, bs("del"), bs("k"))
		hExec(m, bs("set"), bs("k"), bs("v2"))
	case 1:
		hExec(m, bs("set"), bs("k"), bs("v2")) // plain SET drops the deadline
	case 2:
		hExec(m, bs("persist"), bs("k"))
		hExec(m, bs("set"), bs("k"), bs("v2"), bs("keepttl"))
	default:
		hExec(m, bs("del"), bs("k"))
		hExec(m, bs("rpush"), bs("k"), bs("v2"))
	}
	vfAssert(rvEq(hExec(m, bs("ttl"), bs("k")), vInt(-1)), "stale-timer-setup-no-deadline")
	<-time.After(3 * time.Second)
	vfSettle()
	vfAssert(rvEq(hExec(m, bs("exists"), bs("k")), vInt(1)), "key-without-deadline-removed-by-a-stale-timer")
	vfAssert(rvEq(hExec(m, bs("ttl"), bs("k")), vInt(-1)), "stale-timer-left-a-deadline")
}

// a deadline so far away that the timer's duration arithmetic wraps: the timer fires at once; the key
// stays until its deadline
func VF_C06_far_deadline() {
	vfOpt("timers", 8)
	vfFreezeClock(1000)
	m := hNewDb(2)
	hExec(m, bs("set"), bs("k"), bs("v"))
	vfAssert(rvEq(hExec(m, bs("expire"), bs("k"), bs("10000000000")), vInt(1)), "far-deadline-accepted")
	<-time.After(1 * time.Second)
	vfSettle()
	vfAssert(rvEq(hExec(m, bs("exists"), bs("k")), vInt(1)), "key-removed-long-before-its-deadline")
}

// VF_C06_expired_deadline_commands: the commands that work on the deadline itself (PERSIST, TTL, EXPIRE with
// each option) meet a key whose deadline has passed but which has not been reaped yet (the timer goroutine
// has not run): they answer as for a missing key, return (no self-deadlock on the key's stripe) and the
// key is gone afterwards.
func c06ExpiredDeadlineCommands() {
	now := vfClockNow()
	delta := vfInt64("delta")
	vfAssume(delta >= -100000 && delta <= 0)
	m := c06Build('s', true)
	vfAssert(c06Install(m, "k", now+delta, true), "c06-deadline-installed")
	var got rv
	want := vInt(0)
	switch vfChoice("cmd", 7) {
	case 0:
		got = hExec(m, bs("persist"), bs("k"))
	case 1:
		got = hExec(m, bs("ttl"), bs("k"))
		want = vInt(-2)
	case 2:
		got = hExec(m, bs("expire"), bs("k"), bs("100"))
	case 3:
		got = hExec(m, bs("expire"), bs("k"), bs("100"), bs("nx"))
	case 4:
		got = hExec(m, bs("expire"), bs("k"), bs("100"), bs("xx"))
	case 5:
		got = hExec(m, bs("expire"), bs("k"), bs("100"), bs("gt"))
	default:
		got = hExec(m, bs("expire"), bs("k"), bs("100"), bs("lt"))
	}
	vfAssert(rvEq(got, want), "deadline-command-on-an-expired-key-answers-as-for-a-missing-key")
	vfAssert(vfLocksHeld() == 0, "deadline-command-on-an-expired-key-no-lock-left")
	vfAssert(rvEq(hExec(m, bs("exists"), bs("k")), vInt(0)), "expired-key-still-there-after-a-deadline-command")
	_, has := m.ttlKeys.Get("k")
	vfAssert(!has, "expired-key-deadline-record-left")
}

func VF_C06_expired_deadline_commands() { c06ExpiredDeadlineCommands() }

// C04: none of them hangs
func VF_C04_expired_deadline_commands() { c06ExpiredDeadlineCommands() }
