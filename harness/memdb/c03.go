//go:build verif

package memdb

// C03 (framing): every reply object a command produces encodes (real ToBytes) to exactly one
// well-formed RESP value from which a conforming decoder recovers exactly the reply's payload bytes,
// whatever bytes were stored (CR, LF, NUL, 0xFF ...).

import "github.com/innovationb1ue/RedisGO/resp"

// refDecode: reference RESP decoder. Returns the value, the number of bytes consumed, ok.
func refDecode(b []byte, i int, depth int) (rv, int, bool) {
	if i >= len(b) || depth > 4 {
		return rv{}, 0, false
	}
	t := b[i]
	// line up to CRLF
	line := func(from int) (int, bool) { // index of '\r' of the first CRLF at or after from
		for j := from; j+1 < len(b); j++ {
			if b[j] == '\r' && b[j+1] == '\n' {
				return j, true
			}
		}
		return 0, false
	}
	number := func(from int) (n int, neg bool, next int, ok bool) {
		e, ok := line(from)
		if !ok || e == from {
			return 0, false, 0, false
		}
		j := from
		if b[j] == '-' {
			neg = true
			j++
		}
		if j == e {
			return 0, false, 0, false
		}
		for ; j < e; j++ {
			if b[j] < '0' || b[j] > '9' {
				return 0, false, 0, false
			}
			n = n*10 + int(b[j]-'0')
			if n > 1<<20 {
				return 0, false, 0, false
			}
		}
		return n, neg, e + 2, true
	}
	switch t {
	case '+', '-':
		e, ok := line(i + 1)
		if !ok {
			return rv{}, 0, false
		}
		// a simple string / error must not contain CR or LF at all
		for j := i + 1; j < e; j++ {
			if b[j] == '\r' || b[j] == '\n' {
				return rv{}, 0, false
			}
		}
		k := rStatus
		if t == '-' {
			k = rErr
		}
		return rv{k: k, b: b[i+1 : e]}, e + 2, true
	case ':':
		e, ok := line(i + 1)
		if !ok || e == i+1 {
			return rv{}, 0, false
		}
		// integers are compared as text by the caller
		return rv{k: rInt, b: b[i+1 : e]}, e + 2, true
	case '$':
		n, neg, next, ok := number(i + 1)
		if !ok {
			return rv{}, 0, false
		}
		if neg {
			if n != 1 {
				return rv{}, 0, false
			}
			return rv{k: rNil}, next, true
		}
		if next+n+2 > len(b) || b[next+n] != '\r' || b[next+n+1] != '\n' {
			return rv{}, 0, false
		}
		return rv{k: rBulk, b: b[next : next+n]}, next + n + 2, true
	case '*':
		n, neg, next, ok := number(i + 1)
		if !ok {
			return rv{}, 0, false
		}
		if neg {
			if n != 1 {
				return rv{}, 0, false
			}
			return rv{k: rNil}, next, true
		}
		out := rv{k: rArr, a: []rv{}}
		for k := 0; k < n; k++ {
			e, nx, ok := refDecode(b, next, depth+1)
			if !ok {
				return rv{}, 0, false
			}
			out.a = append(out.a, e)
			next = nx
		}
		return out, next, true
	}
	return rv{}, 0, false
}

// sameTree: the decoded value carries exactly the reply object's payloads
func sameTree(got rv, want rv) bool {
	if want.k == rNone || want.k == rOther {
		return false
	}
	if got.k != want.k {
		return false
	}
	switch want.k {
	case rErr:
		// error texts are not payload: the wire form only has to be one line of the same length
		return len(got.b) == len(want.b)
	case rBulk, rStatus:
		return vfBytesEq(got.b, want.b)
	case rInt:
		return true // digits produced by strconv: not payload bytes
	case rArr:
		if len(got.a) != len(want.a) {
			return false
		}
		ok := true
		for i := range want.a {
			ok = vfAnd(ok, sameTree(got.a[i], want.a[i]))
		}
		return ok
	}
	return true
}

func c03Check(r resp.RedisData, label string) {
	vfAssert(r != nil, label+"-reply-object-not-nil")
	b := r.ToBytes()
	v, n, ok := refDecode(b, 0, 0)
	vfAssert(ok, label+"-reply-is-one-wellformed-value")
	vfAssert(n == len(b), label+"-reply-has-no-trailing-bytes")
	vfAssert(sameTree(v, dec(r)), label+"-decoded-payload-equals-stored-bytes")
}

func c03Exec(m *MemDb, label string, parts ...[]byte) {
	c03Check(m.ExecCommand(hCtx(), parts, nil), label)
}

func VF_C03_frame_strings() {
	vfOpt("hashuf", 1)
	m := hNewDb(2)
	k := vfBytes("key", 1, 2)
	v := vfBytes("val", 0, 2)
	c03Exec(m, "set", bs("set"), k, v)
	switch vfChoice("cmd", 9) {
	case 0:
		c03Exec(m, "get", bs("get"), k)
	case 1:
		c03Exec(m, "getrange", bs("getrange"), k, bs("0"), bs("-1"))
	case 2:
		c03Exec(m, "mget", bs("mget"), k, bs("other"))
	case 3:
		c03Exec(m, "keys", bs("keys"), bs("*"))
	case 4:
		c03Exec(m, "set-get", bs("set"), k, bs("n"), bs("get"))
	case 5:
		c03Exec(m, "ping", bs("ping"), v)
	case 6:
		c03Exec(m, "type", bs("type"), k)
	case 7:
		c03Exec(m, "append", bs("append"), k, v)
	case 8:
		c03Exec(m, "rename", bs("rename"), k, v)
	}
}

func VF_C03_frame_lists() {
	vfOpt("hashuf", 1)
	vfOpt("timers", 20)
	m := hNewDb(2)
	k := vfBytes("key", 1, 1)
	e1, e2 := vfBytes("e1", 0, 2), vfBytes("e2", 0, 1)
	c03Exec(m, "rpush", bs("rpush"), k, e1, e2)
	switch vfChoice("cmd", 8) {
	case 0:
		c03Exec(m, "lrange", bs("lrange"), k, bs("0"), bs("-1"))
	case 1:
		c03Exec(m, "lindex", bs("lindex"), k, bs("0"))
	case 2:
		c03Exec(m, "lpop", bs("lpop"), k)
	case 3:
		c03Exec(m, "rpop-count", bs("rpop"), k, bs("2"))
	case 4:
		c03Exec(m, "lmove", bs("lmove"), k, bs("dst"), bs("left"), bs("right"))
	case 5:
		c03Exec(m, "blpop", bs("blpop"), k, bs("1"))
	case 6:
		c03Exec(m, "lpos", bs("lpos"), k, e1, bs("count"), bs("0"))
	case 7:
		c03Exec(m, "brpop", bs("brpop"), bs("nokey"), k, bs("1"))
	}
}

func VF_C03_frame_sets() {
	vfOpt("hashuf", 1)
	m := hNewDb(2)
	a, b := vfBytes("m1", 0, 2), vfBytes("m2", 0, 1)
	c03Exec(m, "sadd", bs("sadd"), bs("s"), a, b)
	switch vfChoice("cmd", 8) {
	case 0:
		c03Exec(m, "smembers", bs("smembers"), bs("s"))
	case 1:
		c03Exec(m, "spop", bs("spop"), bs("s"))
	case 2:
		c03Exec(m, "spop-count", bs("spop"), bs("s"), bs("5"))
	case 3:
		c03Exec(m, "srandmember", bs("srandmember"), bs("s"))
	case 4:
		c03Exec(m, "srandmember-count", bs("srandmember"), bs("s"), bs("-3"))
	case 5:
		c03Exec(m, "sunion", bs("sunion"), bs("s"), bs("nokey"))
	case 6:
		c03Exec(m, "sdiff", bs("sdiff"), bs("s"))
	case 7:
		c03Exec(m, "sinter", bs("sinter"), bs("s"), bs("s"))
	}
}

func VF_C03_frame_hashes() {
	vfOpt("hashuf", 1)
	m := hNewDb(2)
	f, v := vfBytes("field", 0, 2), vfBytes("value", 0, 2)
	c03Exec(m, "hset", bs("hset"), bs("h"), f, v)
	switch vfChoice("cmd", 10) {
	case 8:
		c03Exec(m, "hrandfield-count", bs("hrandfield"), bs("h"), bs("2"))
	case 9:
		c03Exec(m, "hrandfield-negcount", bs("hrandfield"), bs("h"), bs("-2"))
	case 0:
		c03Exec(m, "hget", bs("hget"), bs("h"), f)
	case 1:
		c03Exec(m, "hgetall", bs("hgetall"), bs("h"))
	case 2:
		c03Exec(m, "hkeys", bs("hkeys"), bs("h"))
	case 3:
		c03Exec(m, "hvals", bs("hvals"), bs("h"))
	case 4:
		c03Exec(m, "hmget", bs("hmget"), bs("h"), f, bs("zz"))
	case 5:
		c03Exec(m, "hrandfield", bs("hrandfield"), bs("h"))
	case 6:
		c03Exec(m, "hrandfield-withvalues", bs("hrandfield"), bs("h"), bs("2"), bs("withvalues"))
	case 7:
		c03Exec(m, "hincrbyfloat", bs("hincrbyfloat"), bs("h"), bs("n"), bs("1.5"))
	}
}

func VF_C03_frame_zsets_streams() {
	vfOpt("hashuf", 1)
	m := hNewDb(2)
	mem := vfBytes("member", 0, 2)
	fv := vfBytes("fieldvalue", 0, 2)
	switch vfChoice("cmd", 6) {
	case 0:
		c03Exec(m, "zadd", bs("zadd"), bs("z"), bs("1"), mem)
		c03Exec(m, "zrange", bs("zrange"), bs("z"), bs("0"), bs("-1"), bs("withscores"))
	case 1:
		c03Exec(m, "zadd", bs("zadd"), bs("z"), bs("1"), mem)
		c03Exec(m, "zrange-rev", bs("zrange"), bs("z"), bs("0"), bs("-1"), bs("rev"))
	case 2:
		c03Exec(m, "zadd-incr", bs("zadd"), bs("z"), bs("incr"), bs("2.5"), mem)
		c03Exec(m, "zrank", bs("zrank"), bs("z"), mem)
	case 3:
		c03Exec(m, "xadd", bs("xadd"), bs("x"), bs("1-1"), mem, fv)
		c03Exec(m, "xrange", bs("xrange"), bs("x"), bs("-"), bs("+"))
	case 4:
		c03Exec(m, "xrange-missing", bs("xrange"), bs("nox"), bs("-"), bs("+"))
	case 5:
		c03Exec(m, "zrange-byscore", bs("zrange"), bs("z"), bs("0"), bs("5"), bs("byscore"), bs("withscores"))
	}
}

// error replies that embed client bytes, and replies of every command on bad arguments
func VF_C03_frame_errors() {
	m := hNewDb(2)
	junk := vfBytes("junk", 0, 2)
	switch vfChoice("cmd", 8) {
	case 0:
		c03Exec(m, "unknown-command", junk, bs("x"))
	case 1:
		c03Exec(m, "set-unsupported-option", bs("set"), bs("k"), bs("v"), junk)
	case 2:
		c03Exec(m, "expire-unsupported-option", bs("expire"), bs("k"), bs("1"), junk)
	case 3:
		c03Exec(m, "expire-not-int", bs("expire"), bs("k"), junk)
	case 4:
		c03Exec(m, "lpos-unsupported-option", bs("lpos"), bs("k"), bs("e"), junk, bs("1"))
	case 5:
		c03Exec(m, "setex-not-int", bs("setex"), bs("k"), junk, bs("v"))
	case 6:
		c03Exec(m, "hrandfield-option", bs("hrandfield"), bs("k"), bs("1"), junk)
	case 7:
		c03Exec(m, "member-subcommand", bs("member"), junk)
	}
}

// SET NX and other paths that must still produce a reply object
func VF_C03_every_reply_is_an_object() {
	m := c04World()
	cmds := [][]string{{"set", "fresh", "v", "nx"}, {"set", "ks", "v", "nx"}, {"set", "nokey", "v", "xx"}, {"xrange", "kx", "5-5", "6-6"},
		{"xrange", "nokey", "-", "+"}, {"lpop", "nokey"}, {"spop", "nokey"}, {"zrank", "kz", "zz"}, {"hget", "kh", "zz"}, {"srandmember", "nokey"},
		{"hrandfield", "nokey"}, {"zadd", "kz", "xx", "incr", "1", "nomember"}, {"xadd", "nokey", "nomkstream", "1-1", "f", "v"}, {"keys", "nomatch"}}
	c := cmds[vfChoice("cmd", len(cmds))]
	var args [][]byte
	for _, a := range c {
		args = append(args, bs(a))
	}
	c03Exec(m, "reply-"+c[0], args...)
}
