//go:build verif

package memdb

// C13: multi-key commands are deadlock-free and atomic.
// (a) lock-order discipline per thread, for all key placements: every command that touches several
//     keys acquires the key stripes in strictly increasing stripe index (never re-acquiring a held
//     one), takes a map-shard / stream / channel lock only as the innermost lock, and holds nothing
//     when it returns. Keys are symbolic bytes hashed by the real FNV: the solver chooses which keys
//     collide on a stripe. If every thread obeys one global order no cycle of waits can exist.
// (b) sortedLockPoses == sorted, duplicate-free set of the stripes of its keys (reference).
// (c) two commands on two threads with opposite key orders: no deadlock under any schedule with
//     pre-emption at every synchronisation operation.

import (
	"context"
	"sync"
	"time"
)

func c13Key(name string) []byte { return vfBytes(name, 1, 1) }

func c13Stripes(m *MemDb) []*sync.RWMutex { return m.locks.locks }

// natively there is no lock record: replay a suspected ordering defect as a stress run of the command
// against itself with the key arguments reversed
func c13NativeStress(m *MemDb, fwd, rev [][]byte) int {
	done := make(chan struct{}, 4)
	run := func(args [][]byte) {
		for i := 0; i < 30000; i++ {
			m.ExecCommand(context.Background(), args, nil)
		}
		done <- struct{}{}
	}
	go run(fwd)
	go run(rev)
	// ... and against multi-key writers and readers that take the same stripes through the code's own
	// LockMulti / RLockMulti (a command whose order differs from theirs deadlocks against them)
	var keys []string
	for _, k := range fwd[1:] {
		keys = append(keys, string(k))
	}
	go func() {
		for i := 0; i < 30000; i++ {
			m.locks.LockMulti(keys)
			m.locks.UnLockMulti(keys)
		}
		done <- struct{}{}
	}()
	go func() {
		for i := 0; i < 30000; i++ {
			m.locks.RLockMulti(keys)
			m.locks.RUnLockMulti(keys)
		}
		done <- struct{}{}
	}()
	to := time.After(8 * time.Second)
	for i := 0; i < 4; i++ {
		select {
		case <-done:
		case <-to:
			return 1
		}
	}
	return 0
}

func c13Check(m *MemDb, label string, fwd, rev [][]byte) {
	code := vfLockDiscipline(c13Stripes(m))
	if !vfIsSymbolic() {
		code = c13NativeStress(m, fwd, rev)
	}
	vfAssert(code == 0, label+"-lock-order-discipline")
	vfAssert(vfLocksHeld() == 0, label+"-no-lock-left")
}

func c13Seed(m *MemDb, typ byte, keys ...[]byte) {
	for _, k := range keys {
		switch typ {
		case 'l':
			m.db.Set(string(k), func() *List { l := NewList(); l.RPush([]byte("e")); l.RPush([]byte("f")); return l }())
		case 'e':
			m.db.Set(string(k), func() *Set { s := NewSet(); s.Add("a"); s.Add(string(k)); return s }())
		case 's':
			m.db.Set(string(k), []byte("v"))
		}
	}
}

func VF_C13_order_mset() {
	m := hNewDb(2)
	a, b, c := c13Key("a"), c13Key("b"), c13Key("c")
	fwd := [][]byte{bs("mset"), a, bs("1"), b, bs("2"), c, bs("3")}
	rev := [][]byte{bs("mset"), c, bs("3"), b, bs("2"), a, bs("1")}
	hExec(m, fwd...)
	c13Check(m, "mset", fwd, rev)
}

func VF_C13_order_rename() {
	m := hNewDb(2)
	a, b := c13Key("a"), c13Key("b")
	c13Seed(m, 's', a, b)
	fwd := [][]byte{bs("rename"), a, b}
	rev := [][]byte{bs("rename"), b, a}
	hExec(m, fwd...)
	c13Check(m, "rename", fwd, rev)
}

func VF_C13_order_lmove() {
	m := hNewDb(2)
	a, b := c13Key("a"), c13Key("b")
	c13Seed(m, 'l', a, b)
	fwd := [][]byte{bs("lmove"), a, b, bs("left"), bs("right")}
	rev := [][]byte{bs("lmove"), b, a, bs("left"), bs("right")}
	hExec(m, fwd...)
	c13Check(m, "lmove", fwd, rev)
}

func VF_C13_order_smove() {
	m := hNewDb(2)
	a, b := c13Key("a"), c13Key("b")
	c13Seed(m, 'e', a, b)
	fwd := [][]byte{bs("smove"), a, b, bs("a")}
	rev := [][]byte{bs("smove"), b, a, bs("a")}
	hExec(m, fwd...)
	c13Check(m, "smove", fwd, rev)
}

func c13Algebra(name string, store bool) {
	m := hNewDb(2)
	a, b, c := c13Key("a"), c13Key("b"), c13Key("c")
	c13Seed(m, 'e', a, b, c)
	var fwd, rev [][]byte
	if store {
		d := c13Key("d")
		fwd = [][]byte{bs(name), d, a, b, c}
		rev = [][]byte{bs(name), d, c, b, a}
	} else {
		fwd = [][]byte{bs(name), a, b, c}
		rev = [][]byte{bs(name), c, b, a}
	}
	hExec(m, fwd...)
	c13Check(m, name, fwd, rev)
}

// a multi-key command that is refused half-way (an operand of another type, a missing operand) must
// release every stripe it took: afterwards a writer on each of its keys gets through
func c13Refused(name string, store bool) {
	m := hNewDb(2)
	keys := [][]byte{bs("a"), bs("b"), bs("c")}
	for _, k := range keys {
		switch vfChoice("operand", 3) {
		case 0:
			c13Seed(m, 'e', k)
		case 1:
			c13Seed(m, 's', k)
		}
	}
	cmd := [][]byte{bs(name)}
	if store {
		cmd = append(cmd, bs("d"))
	}
	cmd = append(cmd, keys...)
	hExec(m, cmd...)
	for _, k := range append(keys, bs("d")) {
		hExec(m, bs("del"), k) // would block forever on a leaked stripe (deadlock verdict / replay time-out)
	}
}

func VF_C13_refused_sdiff()       { c13Refused("sdiff", false) }
func VF_C13_refused_sinter()      { c13Refused("sinter", false) }
func VF_C13_refused_sunion()      { c13Refused("sunion", false) }
func VF_C13_refused_sdiffstore()  { c13Refused("sdiffstore", true) }
func VF_C13_refused_sinterstore() { c13Refused("sinterstore", true) }
func VF_C13_refused_sunionstore() { c13Refused("sunionstore", true) }
func VF_C13_refused_smove() {
	m := hNewDb(2)
	for _, k := range [][]byte{bs("a"), bs("b")} {
		switch vfChoice("operand", 3) {
		case 0:
			c13Seed(m, 'e', k)
		case 1:
			c13Seed(m, 's', k)
		}
	}
	hExec(m, bs("smove"), bs("a"), bs("b"), bs("a"))
	hExec(m, bs("del"), bs("a"))
	hExec(m, bs("del"), bs("b"))
}
func VF_C13_refused_lmove() {
	m := hNewDb(2)
	for _, k := range [][]byte{bs("a"), bs("b")} {
		switch vfChoice("operand", 3) {
		case 0:
			c13Seed(m, 'l', k)
		case 1:
			c13Seed(m, 's', k)
		}
	}
	hExec(m, bs("lmove"), bs("a"), bs("b"), bs("left"), bs("right"))
	hExec(m, bs("del"), bs("a"))
	hExec(m, bs("del"), bs("b"))
}

func VF_C13_order_sdiff()       { c13Algebra("sdiff", false) }
func VF_C13_order_sinter()      { c13Algebra("sinter", false) }
func VF_C13_order_sunion()      { c13Algebra("sunion", false) }
func VF_C13_order_sdiffstore()  { c13Algebra("sdiffstore", true) }
func VF_C13_order_sinterstore() { c13Algebra("sinterstore", true) }
func VF_C13_order_sunionstore() { c13Algebra("sunionstore", true) }

func VF_C13_order_del_exists_mget() {
	m := hNewDb(2)
	a, b, c := c13Key("a"), c13Key("b"), c13Key("c")
	c13Seed(m, 's', a, b)
	name := []string{"del", "exists", "mget"}[vfChoice("cmd", 3)]
	fwd := [][]byte{bs(name), a, b, c}
	rev := [][]byte{bs(name), c, b, a}
	hExec(m, fwd...)
	c13Check(m, name, fwd, rev)
}

func VF_C13_order_blpop() {
	vfOpt("timers", 30)
	m := hNewDb(2)
	a, b := c13Key("a"), c13Key("b")
	c13Seed(m, 'l', b)
	fwd := [][]byte{bs("blpop"), a, b, bs("1")}
	rev := [][]byte{bs("blpop"), b, a, bs("1")}
	hExec(m, fwd...)
	c13Check(m, "blpop", fwd, rev)
}

// expired operands: the lazy-expiry call (which locks by itself) must come before, never inside, the
// multi-key locked region
func VF_C13_order_with_expired_keys() {
	now := vfClockNow()
	m := hNewDb(2)
	a, b := c13Key("a"), c13Key("b")
	typ := []byte{'s', 'l', 'e'}[vfChoice("type", 3)]
	c13Seed(m, typ, a, b)
	m.SetTTL(string(a), now-1)
	if vfBool("both_expired") {
		m.SetTTL(string(b), now-1)
	}
	var fwd, rev [][]byte
	switch typ {
	case 's':
		fwd, rev = [][]byte{bs("rename"), a, b}, [][]byte{bs("rename"), b, a}
	case 'l':
		fwd, rev = [][]byte{bs("lmove"), a, b, bs("left"), bs("left")}, [][]byte{bs("lmove"), b, a, bs("left"), bs("left")}
	default:
		fwd, rev = [][]byte{bs("sunionstore"), a, a, b}, [][]byte{bs("sunionstore"), b, b, a}
	}
	hExec(m, fwd...)
	c13Check(m, "expired-"+string(fwd[0]), fwd, rev)
}

// (b) sortedLockPoses against its definition
func VF_C13_sorted_lock_poses() {
	m := hNewDb(2)
	n := 1 + vfChoice("n", 4)
	var keys []string
	for i := 0; i < n; i++ {
		keys = append(keys, string(c13Key("k"+string(rune('0'+i)))))
	}
	poses := m.locks.sortedLockPoses(keys)
	// strictly increasing, within range
	for i := range poses {
		vfAssert(poses[i] >= 0 && poses[i] < len(m.locks.locks), "lockposes-in-range")
		if i > 0 {
			vfAssert(poses[i-1] < poses[i], "lockposes-strictly-increasing")
		}
	}
	// exactly the stripes of the keys
	for _, k := range keys {
		p := m.locks.GetKeyPos(k)
		found := false
		for _, q := range poses {
			if q == p {
				found = true
			}
		}
		vfAssert(found, "lockposes-covers-every-key")
	}
	for _, q := range poses {
		used := false
		for _, k := range keys {
			if m.locks.GetKeyPos(k) == q {
				used = true
			}
		}
		vfAssert(used, "lockposes-only-stripes-of-the-keys")
	}
	// lock/unlock symmetry
	m.locks.LockMulti(keys)
	vfAssert(vfLocksHeld() == len(poses), "lockmulti-locks-each-stripe-once")
	m.locks.UnLockMulti(keys)
	vfAssert(vfLocksHeld() == 0, "unlockmulti-releases-all")
	m.locks.RLockMulti(keys)
	m.locks.RUnLockMulti(keys)
	vfAssert(vfLocksHeld() == 0, "runlockmulti-releases-all")
}

// (c) two threads, opposite key orders, every schedule (pre-emption at each synchronisation point)
var c13Preempt = 1

func c13Pair(label string, typ byte, mk func(a, b []byte) ([][]byte, [][]byte)) {
	vfOpt("concurrent", 1)
	vfOpt("racecheck", 1)
	vfOpt("preempt", c13Preempt)
	m := hNewDb(2)
	// concrete keys (placement over all stripes is covered by the order harnesses): "a" against one of
	// four others, which land on the same or on different stripes
	a, b := bs("a"), bs([]string{"b", "c", "d", "e"}[vfChoice("other", 4)])
	c13Seed(m, typ, a, b)
	c1, c2 := mk(a, b)
	ctx := context.Background()
	if !vfIsSymbolic() {
		// one native run of two goroutines rarely lands on the losing schedule: repeat the pair
		if c13NativeStress(m, c1, c2) != 0 {
			panic("deadlock: the two commands stopped making progress (native stress timed out)")
		}
		return
	}
	vfSpawn(func() { m.ExecCommand(ctx, c1, nil) })
	vfSpawn(func() { m.ExecCommand(ctx, c2, nil) })
	vfWaitAll()
	vfAssert(vfLocksHeld() == 0, label+"-pair-no-lock-left")
}

func VF_C13_pair_mset_quick()    { c13Preempt = 1; c13pair_mset() }
func VF_C13_pair_mset_thorough() { c13Preempt = 2; c13pair_mset() }

func c13pair_mset() {
	c13Pair("mset", 's', func(a, b []byte) ([][]byte, [][]byte) {
		return [][]byte{bs("mset"), a, bs("1"), b, bs("1")}, [][]byte{bs("mset"), b, bs("2"), a, bs("2")}
	})
}

func VF_C13_pair_rename_quick()    { c13Preempt = 1; c13pair_rename() }
func VF_C13_pair_rename_thorough() { c13Preempt = 2; c13pair_rename() }

func c13pair_rename() {
	c13Pair("rename", 's', func(a, b []byte) ([][]byte, [][]byte) {
		return [][]byte{bs("rename"), a, b}, [][]byte{bs("rename"), b, a}
	})
}

func VF_C13_pair_lmove_quick()    { c13Preempt = 1; c13pair_lmove() }
func VF_C13_pair_lmove_thorough() { c13Preempt = 2; c13pair_lmove() }

func c13pair_lmove() {
	c13Pair("lmove", 'l', func(a, b []byte) ([][]byte, [][]byte) {
		return [][]byte{bs("lmove"), a, b, bs("left"), bs("right")}, [][]byte{bs("lmove"), b, a, bs("right"), bs("left")}
	})
}

func VF_C13_pair_smove_sunionstore_quick()    { c13Preempt = 1; c13pair_smove_sunionstore() }
func VF_C13_pair_smove_sunionstore_thorough() { c13Preempt = 2; c13pair_smove_sunionstore() }

func c13pair_smove_sunionstore() {
	c13Pair("smove-sunionstore", 'e', func(a, b []byte) ([][]byte, [][]byte) {
		return [][]byte{bs("smove"), a, b, bs("a")}, [][]byte{bs("sunionstore"), a, b, a}
	})
}

// (d) atomicity: an observer on another thread issuing two single-key reads can never see a
// multi-key command half applied (in the order that would expose it), under every schedule.
// c13Forced runs the two-key command and a single-key command on its source concurrently. Under gosx every
// schedule within the bound is explored. Natively the schedule the solver typically finds - the single-key
// command lands while the two-key command is waiting for its stripes - is forced: the harness holds the
// destination's stripe so that the two-key command parks in LockMulti, lets the other command finish, then
// releases the stripe.
func c13Forced(m *MemDb, src, dst []byte, multi, single func()) {
	if vfIsSymbolic() {
		vfSpawn(multi)
		vfSpawn(single)
		vfWaitAll()
		return
	}
	if m.locks.GetKeyPos(string(src)) == m.locks.GetKeyPos(string(dst)) {
		multi()
		single()
		return
	}
	m.locks.Lock(string(dst))
	vfSpawn(multi)
	time.Sleep(100 * time.Millisecond)
	single()
	m.locks.UnLock(string(dst))
	vfWaitAll()
}

func c13Atomic(which int) {
	vfOpt("concurrent", 1)
	vfOpt("racecheck", 1)
	vfOpt("preempt", 2)
	m := hNewDb(2)
	ctx := context.Background()
	a, b := bs("a"), bs([]string{"b", "c", "d"}[vfChoice("other", 3)])
	var first, second rv
	switch which {
	case 0: // MSET a 1 b 1 over a=0,b=0: "b new, then a old" is impossible
		hExec(m, bs("mset"), a, bs("0"), b, bs("0"))
		vfSpawn(func() { m.ExecCommand(ctx, [][]byte{bs("mset"), a, bs("1"), b, bs("1")}, nil) })
		vfSpawn(func() { first = hExec(m, bs("get"), b); second = hExec(m, bs("get"), a) })
		vfWaitAll()
		vfAssert(!(string(first.b) == "1" && string(second.b) == "0"), "mset-never-half-applied")
	case 1: // RENAME a b: "b present (moved value), then a still present" is impossible
		hExec(m, bs("set"), a, bs("v"))
		vfSpawn(func() { m.ExecCommand(ctx, [][]byte{bs("rename"), a, b}, nil) })
		vfSpawn(func() { first = hExec(m, bs("exists"), b); second = hExec(m, bs("exists"), a) })
		vfWaitAll()
		vfAssert(!(first.n == 1 && second.n == 1), "rename-value-never-in-both-keys")
	case 2: // RENAME a b: "a gone, then b not there yet" is impossible
		hExec(m, bs("set"), a, bs("v"))
		vfSpawn(func() { m.ExecCommand(ctx, [][]byte{bs("rename"), a, b}, nil) })
		vfSpawn(func() { first = hExec(m, bs("exists"), a); second = hExec(m, bs("exists"), b) })
		vfWaitAll()
		vfAssert(!(first.n == 0 && second.n == 0), "rename-value-never-in-neither-key")
	case 3: // LMOVE a b: the element is never duplicated: "in b, then still in a"
		hExec(m, bs("rpush"), a, bs("e"))
		vfSpawn(func() { m.ExecCommand(ctx, [][]byte{bs("lmove"), a, b, bs("left"), bs("right")}, nil) })
		vfSpawn(func() { first = hExec(m, bs("llen"), b); second = hExec(m, bs("llen"), a) })
		vfWaitAll()
		vfAssert(!(first.n == 1 && second.n == 1), "lmove-element-never-duplicated")
	case 4: // LMOVE a b: the element is never lost from view: "gone from a, then not in b"
		hExec(m, bs("rpush"), a, bs("e"))
		vfSpawn(func() { m.ExecCommand(ctx, [][]byte{bs("lmove"), a, b, bs("left"), bs("right")}, nil) })
		vfSpawn(func() { first = hExec(m, bs("llen"), a); second = hExec(m, bs("llen"), b) })
		vfWaitAll()
		vfAssert(!(first.n == 0 && second.n == 0), "lmove-element-never-lost")
	case 5: // SMOVE a b x
		hExec(m, bs("sadd"), a, bs("x"))
		vfSpawn(func() { m.ExecCommand(ctx, [][]byte{bs("smove"), a, b, bs("x")}, nil) })
		vfSpawn(func() { first = hExec(m, bs("sismember"), b, bs("x")); second = hExec(m, bs("sismember"), a, bs("x")) })
		vfWaitAll()
		vfAssert(!(first.n == 1 && second.n == 1), "smove-member-never-in-both-sets")
	case 6:
		hExec(m, bs("sadd"), a, bs("x"))
		vfSpawn(func() { m.ExecCommand(ctx, [][]byte{bs("smove"), a, b, bs("x")}, nil) })
		vfSpawn(func() { first = hExec(m, bs("sismember"), a, bs("x")); second = hExec(m, bs("sismember"), b, bs("x")) })
		vfWaitAll()
		vfAssert(!(first.n == 0 && second.n == 0), "smove-member-never-in-neither-set")
	case 7: // LMOVE a b || DEL a: the element is moved or deleted, never both
		hExec(m, bs("rpush"), a, bs("e"))
		c13Forced(m, a, b, func() { first = hExec(m, bs("lmove"), a, b, bs("left"), bs("right")) }, func() { second = hExec(m, bs("del"), a) })
		moved := hExec(m, bs("llen"), b)
		vfAssert(!(second.n == 1 && moved.n == 1), "lmove-and-del-both-took-the-element")
		vfAssert(second.n == 1 || moved.n == 1, "lmove-or-del-took-the-element")
	case 8: // SMOVE a b x || DEL a
		hExec(m, bs("sadd"), a, bs("x"))
		c13Forced(m, a, b, func() { first = hExec(m, bs("smove"), a, b, bs("x")) }, func() { second = hExec(m, bs("del"), a) })
		moved := hExec(m, bs("scard"), b)
		vfAssert(!(second.n == 1 && moved.n == 1), "smove-and-del-both-took-the-member")
	case 9: // RENAME a b || DEL a
		hExec(m, bs("set"), a, bs("v"))
		c13Forced(m, a, b, func() { first = hExec(m, bs("rename"), a, b) }, func() { second = hExec(m, bs("del"), a) })
		moved := hExec(m, bs("exists"), b)
		vfAssert(!(second.n == 1 && moved.n == 1), "rename-and-del-both-took-the-value")
	}
	vfAssert(vfLocksHeld() == 0, "atomic-no-lock-left")
}

func VF_C13_atomic_mset()        { c13Atomic(0) }
func VF_C13_atomic_rename_both() { c13Atomic(1) }
func VF_C13_atomic_rename_none() { c13Atomic(2) }
func VF_C13_atomic_lmove_dup()   { c13Atomic(3) }
func VF_C13_atomic_lmove_lost()  { c13Atomic(4) }
func VF_C13_atomic_smove_both()  { c13Atomic(5) }
func VF_C13_atomic_smove_none()  { c13Atomic(6) }
func VF_C13_atomic_lmove_del()   { c13Atomic(7) }
func VF_C13_atomic_smove_del()   { c13Atomic(8) }
func VF_C13_atomic_rename_del()  { c13Atomic(9) }

// (e) a second writer on the destination key runs concurrently with the two-key command: both keys
// must be protected for its whole duration (no data race on the destination value)
func c13DestWriter(which int) {
	vfOpt("concurrent", 1)
	vfOpt("racecheck", 1)
	vfOpt("preempt", 2)
	m := hNewDb(2)
	ctx := context.Background()
	a, b := bs("a"), bs([]string{"b", "c", "d"}[vfChoice("other", 3)])
	var c1, c2 [][]byte
	switch which {
	case 0:
		hExec(m, bs("rpush"), a, bs("e"))
		hExec(m, bs("rpush"), b, bs("f"))
		c1 = [][]byte{bs("lmove"), a, b, bs("left"), bs("right")}
		c2 = [][]byte{bs("rpush"), b, bs("g")}
	case 1:
		hExec(m, bs("sadd"), a, bs("x"))
		hExec(m, bs("sadd"), b, bs("y"))
		c1 = [][]byte{bs("smove"), a, b, bs("x")}
		c2 = [][]byte{bs("sadd"), b, bs("z")}
	case 2:
		hExec(m, bs("set"), a, bs("v"))
		hExec(m, bs("set"), b, bs("w"))
		c1 = [][]byte{bs("rename"), a, b}
		c2 = [][]byte{bs("append"), b, bs("z")}
	case 3:
		hExec(m, bs("sadd"), a, bs("x"))
		hExec(m, bs("sadd"), b, bs("y"))
		c1 = [][]byte{bs("sunionstore"), b, a, b}
		c2 = [][]byte{bs("sadd"), b, bs("z")}
	}
	vfSpawn(func() { m.ExecCommand(ctx, c1, nil) })
	vfSpawn(func() { m.ExecCommand(ctx, c2, nil) })
	vfWaitAll()
	vfAssert(vfLocksHeld() == 0, "dest-writer-no-lock-left")
}

func VF_C13_destwriter_lmove()       { c13DestWriter(0) }
func VF_C13_destwriter_smove()       { c13DestWriter(1) }
func VF_C13_destwriter_rename()      { c13DestWriter(2) }
func VF_C13_destwriter_sunionstore() { c13DestWriter(3) }
