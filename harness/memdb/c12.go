//go:build verif

package memdb

// C12: sorted sets keep one score per member, ordered output, and a valid AVL tree.
// Bounded programs of ZADD (with option subsets) / ZREM over a few member names with symbolic float64
// scores; after every step: representation invariant, reply == model, full ZRANGE/ZRANK read-back.

type zmem struct {
	name  string
	score float64
}

type zmodel []zmem

func (z zmodel) find(name string) int {
	for i, e := range z {
		if e.name == name {
			return i
		}
	}
	return -1
}

// ---- representation invariant (built as one boolean term: scores are symbolic, pointers concrete)

type avlInfo struct {
	ok     bool
	height int64
	nodes  int
	names  int
	has    bool
	min    float64
	max    float64
}

func avlCheck(t *Btree[*SortedSetNode], n *Node[*SortedSetNode]) avlInfo {
	if n == nil {
		return avlInfo{ok: true}
	}
	l := avlCheck(t, n.left)
	r := avlCheck(t, n.right)
	sc := n.Value.Score
	ok := vfAnd(l.ok, r.ok)
	ok = vfAnd(ok, sc == sc) // no NaN stored
	if l.has {
		ok = vfAnd(ok, l.max < sc)
	}
	if r.has {
		ok = vfAnd(ok, sc < r.min)
	}
	h := l.height
	if r.height > h {
		h = r.height
	}
	h++
	bal := l.height - r.height
	ok = vfAnd(ok, n.height == h && bal >= -1 && bal <= 1)
	ok = vfAnd(ok, len(n.Value.Names) >= 1)
	for name := range n.Value.Names {
		d, in := t.dict[name]
		ok = vfAnd(ok, in && d != nil && d.Value == n.Value && d == n)
	}
	info := avlInfo{ok: ok, height: h, nodes: l.nodes + r.nodes + 1, names: l.names + r.names + len(n.Value.Names), has: true, min: sc, max: sc}
	if l.has {
		info.min = l.min
	}
	if r.has {
		info.max = r.max
	}
	return info
}

func avlInv(z *SortedSet[*SortedSetNode]) bool {
	info := avlCheck(z.Btree, z.root)
	return vfAnd(info.ok, info.nodes == z.len && info.names == len(z.dict))
}

// ---- read-back against the model (ties may come in any order: only score order is demanded)

func c12ReadBack(m *MemDb, z zmodel, label string) {
	v, ok := hGet(m, "z")
	if len(z) == 0 {
		vfAssert(!ok, label+"-empty-zset-key-removed")
		return
	}
	vfAssert(ok, label+"-key-present")
	zs, isZ := v.(*SortedSet[*SortedSetNode])
	vfAssert(isZ, label+"-is-zset")
	vfAssert(avlInv(zs), label+"-avl-invariant")
	got := hExec(m, bs("zrange"), bs("z"), bs("0"), bs("-1"), bs("WithScores"))
	vfAssert(got.k == rArr && len(got.a) == 2*len(z), label+"-zrange-all-shape")
	seen := make([]bool, len(z))
	var prev float64
	for i := 0; i+1 < len(got.a); i += 2 {
		j := z.find(string(got.a[i].b))
		vfAssert(j >= 0 && !seen[j], label+"-zrange-each-member-once")
		seen[j] = true
		sc, okf := vfFloatOf(got.a[i+1].b)
		vfAssert(okf && sc == z[j].score, label+"-zrange-member-has-its-latest-score")
		if i > 0 {
			vfAssert(prev <= sc, label+"-zrange-ordered-by-score")
		}
		prev = sc
		// ZRANK is the member's position in that order
		r := hExec(m, bs("zrank"), bs("z"), got.a[i].b)
		vfAssert(rvEq(r, vInt(int64(i/2))), label+"-zrank-is-position-in-zrange")
	}
	vfAssert(rvEq(hExec(m, bs("zrank"), bs("z"), bs("nomember")), vNil()), label+"-zrank-missing-member")
}

var c12Names = []string{"a", "b", "c", "d"}

// one ZADD with a symbolic option subset and 1..2 score/member pairs
func c12Zadd(m *MemDb, z zmodel, step string, nnames int, maxPairs int, nopts int) zmodel {
	// option subset: one of the meaningful combinations (incl. a conflicting one)
	combos := [][5]bool{{}, {true}, {false, true}, {false, false, true}, {false, false, false, true}, {false, false, false, false, true},
		{false, true, true, false, true}, {false, false, false, true, true}, {true, false, true}, {true, true}}
	c := combos[vfChoice(step+".opts", nopts)]
	nx, xx, gt, lt, ch := c[0], c[1], c[2], c[3], c[4]
	args := [][]byte{bs("zadd"), bs("z")}
	if nx {
		args = append(args, vfCase(step+".nxcase", "nx"))
	}
	if xx {
		args = append(args, vfCase(step+".xxcase", "xx"))
	}
	if gt {
		args = append(args, vfCase(step+".gtcase", "gt"))
	}
	if lt {
		args = append(args, vfCase(step+".ltcase", "lt"))
	}
	if ch {
		args = append(args, vfCase(step+".chcase", "ch"))
	}
	np := 1 + vfChoice(step+".npairs", maxPairs)
	type pair struct {
		name  string
		score float64
	}
	var pairs []pair
	for i := 0; i < np; i++ {
		nm := c12Names[vfChoice(step+".name"+string(rune('0'+i)), nnames)]
		sc := vfFloat64(step + ".score" + string(rune('0'+i)))
		pairs = append(pairs, pair{nm, sc})
		args = append(args, vfFloatStr(sc), bs(nm))
	}
	got := hExec(m, args...)
	bad := (gt && lt) || (nx && gt) || (nx && lt) || (nx && xx)
	nan := false
	for _, p := range pairs {
		if p.score != p.score {
			nan = true
		}
	}
	if bad || nan {
		vfAssert(got.k == rErr, step+"-zadd-invalid-arguments-rejected")
		return z
	}
	added, changed := int64(0), int64(0)
	nz := append(zmodel(nil), z...)
	for _, p := range pairs {
		j := nz.find(p.name)
		switch {
		case j < 0 && xx:
		case j >= 0 && nx:
		case j >= 0 && lt && !(p.score < nz[j].score):
		case j >= 0 && gt && !(p.score > nz[j].score):
		case j < 0:
			nz = append(nz, zmem{p.name, p.score})
			added++
		default:
			if nz[j].score != p.score {
				changed++
				nz[j].score = p.score
			}
		}
	}
	want := added
	if ch {
		want += changed
	}
	vfAssert(rvEq(got, vInt(want)), step+"-zadd-reply")
	return nz
}

func c12Zrem(m *MemDb, z zmodel, step string, nnames int, maxRem int) zmodel {
	n := 1 + vfChoice(step+".nrem", maxRem)
	args := [][]byte{bs("ZREM"), bs("z")}
	nz := append(zmodel(nil), z...)
	cnt := int64(0)
	for i := 0; i < n; i++ {
		nm := c12Names[vfChoice(step+".rem"+string(rune('0'+i)), nnames)]
		args = append(args, bs(nm))
		if j := nz.find(nm); j >= 0 {
			cnt++
			nz = append(nz[:j:j], nz[j+1:]...)
		}
	}
	got := hExec(m, args...)
	vfAssert(rvEq(got, vInt(cnt)), step+"-zrem-reply")
	return nz
}

func c12Prog(steps, nnames, maxPairs, nopts int) {
	m := hNewDb(2)
	var z zmodel
	for s := 0; s < steps; s++ {
		step := "s" + string(rune('0'+s))
		if vfChoice(step+".op", 3) == 2 {
			z = c12Zrem(m, z, step, nnames, maxPairs)
		} else {
			z = c12Zadd(m, z, step, nnames, maxPairs, nopts)
		}
		c12ReadBack(m, z, step)
		vfAssert(vfLocksHeld() == 0, step+"-no-lock-left")
	}
}

func VF_C12_prog_quick()    { c12Prog(2, 3, 1, 8) }
func VF_C12_prog3_quick()   { c12Prog(3, 2, 1, 1) }
func VF_C12_prog_thorough() { c12Prog(2, 3, 1, 10) }

// deeper trees with concrete-ordered inserts: every insertion order of 5 distinct symbolic scores
// constrained to a chosen total order exercises all four rotation cases and deletions of inner nodes
func c12Shapes(n int, del int) {
	m := hNewDb(2)
	var z zmodel
	names := []string{"m0", "m1", "m2", "m3", "m4", "m5", "m6"}
	used := make([]bool, n)
	var scores []float64
	for i := 0; i < n; i++ {
		scores = append(scores, vfFloat64("sc"+string(rune('0'+i))))
		if i > 0 {
			vfAssume(scores[i-1] < scores[i]) // sc0 < sc1 < ... : the rank of each member is known
		}
	}
	// insert in a nondeterministic order
	for i := 0; i < n; i++ {
		k := vfChoice("ins"+string(rune('0'+i)), n-i)
		j := 0
		for ; j < n; j++ {
			if !used[j] {
				if k == 0 {
					break
				}
				k--
			}
		}
		used[j] = true
		r := hExec(m, bs("zadd"), bs("z"), vfFloatStr(scores[j]), bs(names[j]))
		vfAssert(rvEq(r, vInt(1)), "shapes-zadd-reply")
		z = append(z, zmem{names[j], scores[j]})
	}
	c12ReadBack(m, z, "shapes-after-inserts")
	for d := 0; d < del; d++ {
		k := vfChoice("del"+string(rune('0'+d)), len(z))
		r := hExec(m, bs("zrem"), bs("z"), bs(z[k].name))
		vfAssert(rvEq(r, vInt(1)), "shapes-zrem-reply")
		z = append(z[:k:k], z[k+1:]...)
		c12ReadBack(m, z, "shapes-after-delete")
	}
}

func VF_C12_shapes_quick()    { c12Shapes(4, 2) }
func VF_C12_shapes_thorough() { c12Shapes(5, 2) }

// ZRANGE index windows (negative, beyond the ends), REV, WITHSCORES
func VF_C12_range() {
	m := hNewDb(2)
	n := 1 + vfChoice("n", 3)
	var z zmodel
	for i := 0; i < n; i++ {
		sc := float64(i + 1)
		if i == 2 && vfBool("tie") {
			sc = 2 // "b" and "c" share a score
		}
		hExec(m, bs("zadd"), bs("z"), bs(strconvF(sc)), bs(c12Names[i]))
		z = append(z, zmem{c12Names[i], sc})
	}
	a, b := vfInt64("start"), vfInt64("stop")
	rev, ws := vfBool("rev"), vfBool("withscores")
	args := [][]byte{bs("zrange"), bs("z"), vfNumStr(a), vfNumStr(b)}
	if rev {
		args = append(args, vfCase("revcase", "rev"))
	}
	if ws {
		args = append(args, vfCase("wscase", "withscores"))
	}
	got := hExec(m, args...)
	// the full order (names are already in (score, name) order)
	order := append(zmodel(nil), z...)
	if rev {
		for i, j := 0, len(order)-1; i < j; i, j = i+1, j-1 {
			order[i], order[j] = order[j], order[i]
		}
	}
	var want []rv
	if lo, hi, ok := refNorm(a, b, len(order)); ok {
		for _, e := range order[lo : hi+1] {
			want = append(want, vBulk(bs(e.name)))
			if ws {
				want = append(want, vBulk(bs(strconvF(e.score))))
			}
		}
	}
	vfAssert(got.k == rArr && len(got.a) == len(want), "zrange-window-size")
	for i := range want {
		if ws && i%2 == 1 {
			sc, ok := vfFloatOf(got.a[i].b)
			wsc, _ := vfFloatOf(want[i].b)
			vfAssert(ok && sc == wsc, "zrange-window-score")
		} else {
			// within a tie any order is accepted
			nm := string(got.a[i].b)
			wn := string(want[i].b)
			tie := (nm == "b" && wn == "c") || (nm == "c" && wn == "b")
			vfAssert(nm == wn || (tie && z.find("c") >= 0 && z[z.find("c")].score == 2), "zrange-window-member")
		}
	}
}

func strconvF(f float64) string {
	if f == 1 {
		return "1"
	}
	if f == 2 {
		return "2"
	}
	return "3"
}

// INCR: the reply is the new score (nil when vetoed), the member moves
func VF_C12_zadd_incr() {
	m := hNewDb(2)
	var z zmodel
	if vfBool("exists") {
		old := vfFloat64("old")
		vfAssume(old == old)
		hExec(m, bs("zadd"), bs("z"), vfFloatStr(old), bs("a"))
		z = append(z, zmem{"a", old})
		hExec(m, bs("zadd"), bs("z"), bs("5"), bs("b"))
		z = append(z, zmem{"b", 5})
	}
	d := vfFloat64("delta")
	vfAssume(d == d)
	opt := vfChoice("opt", 5)
	xx, nx, gt, lt := opt == 1, opt == 2, opt == 3, opt == 4
	args := [][]byte{bs("zadd"), bs("z")}
	if xx {
		args = append(args, bs("XX"))
	}
	if nx {
		args = append(args, bs("NX"))
	}
	if gt {
		args = append(args, bs("gt"))
	}
	if lt {
		args = append(args, bs("LT"))
	}
	args = append(args, vfCase("incrcase", "incr"), vfFloatStr(d), bs("a"))
	got := hExec(m, args...)
	j := z.find("a")
	ns := d
	if j >= 0 {
		ns = z[j].score + d
	}
	switch {
	case (j < 0 && xx) || (j >= 0 && nx):
		vfAssert(got.k == rNil, "zadd-incr-vetoed-reply-nil")
	case j >= 0 && ns == ns && ((gt && !(ns > z[j].score)) || (lt && !(ns < z[j].score))):
		// GT/LT compare the resulting score with the current one
		vfAssert(got.k == rNil, "zadd-incr-gt-lt-vetoed-reply-nil")
	default:
		if ns != ns {
			vfAssert(got.k == rErr, "zadd-incr-nan-rejected")
		} else {
			sc, ok := vfFloatOf(got.b)
			vfAssert(got.k == rBulk && ok && sc == ns, "zadd-incr-reply-new-score")
			if j >= 0 {
				z[j].score = ns
			} else {
				z = append(z, zmem{"a", ns})
			}
		}
	}
	c12ReadBack(m, z, "zadd-incr")
}

// wrong type / missing key behaviour
func VF_C12_types() {
	m := hNewDb(2)
	m.db.Set("z", []byte("str"))
	vfAssert(isWrongType(hExec(m, bs("zadd"), bs("z"), bs("1"), bs("a"))), "zadd-wrongtype")
	vfAssert(isWrongType(hExec(m, bs("zrange"), bs("z"), bs("0"), bs("-1"))), "zrange-wrongtype")
	vfAssert(isWrongType(hExec(m, bs("zrem"), bs("z"), bs("a"))), "zrem-wrongtype")
	vfAssert(isWrongType(hExec(m, bs("zrank"), bs("z"), bs("a"))), "zrank-wrongtype")
	v, _ := hGet(m, "z")
	b, isB := v.([]byte)
	vfAssert(isB && string(b) == "str", "zset-commands-leave-other-type-untouched")
	vfAssert(rvEq(hExec(m, bs("zrem"), bs("nokey"), bs("a")), vInt(0)), "zrem-missing-key")
	vfAssert(rvEq(hExec(m, bs("zrange"), bs("nokey"), bs("0"), bs("-1")), vArr(nil)), "zrange-missing-key")
	vfAssert(rvEq(hExec(m, bs("zrank"), bs("nokey"), bs("a")), vNil()), "zrank-missing-key")
	_, ok := hGet(m, "nokey")
	vfAssert(!ok, "zset-reads-create-nothing")
	// a vetoed ZADD on a missing key creates nothing
	vfAssert(rvEq(hExec(m, bs("zadd"), bs("fresh"), bs("xx"), bs("1"), bs("a")), vInt(0)), "zadd-xx-missing-key-reply")
	_, ok = hGet(m, "fresh")
	vfAssert(!ok, "zadd-vetoed-creates-nothing")
	// keys and members are case-sensitive
	hExec(m, bs("zadd"), bs("Zk"), bs("1"), bs("Mem"))
	vfAssert(rvEq(hExec(m, bs("zrank"), bs("Zk"), bs("Mem")), vInt(0)), "zrank-case-sensitive")
	vfAssert(rvEq(hExec(m, bs("zrem"), bs("Zk"), bs("mem")), vInt(0)), "zrem-case-sensitive-member")
	vfAssert(rvEq(hExec(m, bs("zrem"), bs("Zk"), bs("Mem")), vInt(1)), "zrem-case-sensitive")
}

// ---------------------------------------------------------------------------
// VF_C12_avl_shapes: every AVL shape with up to maxNodes nodes (built without rotations by inserting in
// level order), scores symbolic under the shape's in-order constraint, then the removal of any one member:
// the invariant, the replies and the full read-back must hold. Deletion reaches rebalancing cases that
// insertion never produces (a child with balance 0 on the heavy side).
type c12Shape struct{ l, r *c12Shape }

func c12Height(s *c12Shape) int {
	if s == nil {
		return 0
	}
	a, b := c12Height(s.l), c12Height(s.r)
	if a > b {
		return a + 1
	}
	return b + 1
}

func c12Count(s *c12Shape) int {
	if s == nil {
		return 0
	}
	return 1 + c12Count(s.l) + c12Count(s.r)
}

// all AVL shapes of exactly height h with at most max nodes
func c12Gen(h, max int) []*c12Shape {
	if h == 0 {
		return []*c12Shape{nil}
	}
	if max <= 0 {
		return nil
	}
	var res []*c12Shape
	for _, hs := range [][2]int{{h - 1, h - 1}, {h - 1, h - 2}, {h - 2, h - 1}} {
		if hs[0] < 0 || hs[1] < 0 {
			continue
		}
		for _, l := range c12Gen(hs[0], max-1) {
			nl := c12Count(l)
			for _, r := range c12Gen(hs[1], max-1-nl) {
				if 1+nl+c12Count(r) <= max {
					res = append(res, &c12Shape{l, r})
				}
			}
		}
	}
	return res
}

func c12AVLShapes(minNodes, maxNodes int) {
	var shapes []*c12Shape
	for h := 1; h <= 4; h++ {
		for _, s := range c12Gen(h, maxNodes) {
			if c12Count(s) >= minNodes {
				shapes = append(shapes, s)
			}
		}
	}
	s := shapes[vfChoice("shape", len(shapes))]
	n := c12Count(s)
	// in-order rank of every node, then level order
	rank := map[*c12Shape]int{}
	var inorder func(x *c12Shape)
	k := 0
	inorder = func(x *c12Shape) {
		if x == nil {
			return
		}
		inorder(x.l)
		rank[x] = k
		k++
		inorder(x.r)
	}
	inorder(s)
	scores := make([]float64, n)
	for i := range scores {
		scores[i] = vfFloat64("sc")
		if i > 0 {
			vfAssume(scores[i-1] < scores[i])
		}
	}
	m := hNewDb(2)
	var z zmodel
	names := []string{"m0", "m1", "m2", "m3", "m4", "m5", "m6", "m7", "m8", "m9"}
	queue := []*c12Shape{s}
	for len(queue) > 0 {
		x := queue[0]
		queue = queue[1:]
		j := rank[x]
		r := hExec(m, bs("zadd"), bs("z"), vfFloatStr(scores[j]), bs(names[j]))
		vfAssert(rvEq(r, vInt(1)), "avl-shapes-zadd-reply")
		z = append(z, zmem{names[j], scores[j]})
		if x.l != nil {
			queue = append(queue, x.l)
		}
		if x.r != nil {
			queue = append(queue, x.r)
		}
	}
	c12ReadBack(m, z, "avl-shapes-after-inserts")
	d := vfChoice("del", len(z))
	r := hExec(m, bs("zrem"), bs("z"), bs(z[d].name))
	vfAssert(rvEq(r, vInt(1)), "avl-shapes-zrem-reply")
	z = append(z[:d:d], z[d+1:]...)
	c12ReadBack(m, z, "avl-shapes-after-delete")
}

func VF_C12_avl_shapes_quick()    { c12AVLShapes(5, 8) }
func VF_C12_avl_shapes_thorough() { c12AVLShapes(5, 10) }


// one member named by both pairs of a ZADD (and again in a second command): the pairs apply one after
// the other
func VF_C12_prog_same_member() { c12Prog(2, 1, 2, 10) }
