//go:build verif

package memdb

// C10: hash commands against an exact field -> value map (one-step inductive harnesses).

type hfield struct {
	name []byte
	val  []byte
}

type hstate struct {
	kind   int // kMissing / kHere / kWrong
	fields []hfield
}

// hashRead returns the content of the stored hash in the engine's (deterministic) table order.
func hashRead(h *Hash) []hfield {
	var out []hfield
	for k, v := range h.table {
		out = append(out, hfield{name: []byte(k), val: v})
	}
	return out
}

func fieldEq(a, b hfield) bool { return vfAnd(vfBytesEq(a.name, b.name), sameText(a.val, b.val)) }

// permFields: got is a permutation of want (field/value pairs).
func permFields(got, want []hfield) bool {
	if len(got) != len(want) {
		return false
	}
	return permFieldsRec(got, want, 0, make([]bool, len(want)))
}

func permFieldsRec(got, want []hfield, i int, used []bool) bool {
	if i == len(got) {
		return true
	}
	ok := false
	for j := range want {
		if used[j] {
			continue
		}
		used[j] = true
		ok = vfOr(ok, vfAnd(fieldEq(got[i], want[j]), permFieldsRec(got, want, i+1, used)))
		used[j] = false
	}
	return ok
}

func permBytes(got, want [][]byte) bool {
	g := make([]hfield, len(got))
	w := make([]hfield, len(want))
	for i := range got {
		g[i] = hfield{name: got[i]}
	}
	for i := range want {
		w[i] = hfield{name: want[i]}
	}
	return permFields(g, w)
}

// c10Pre: key "k" missing / hash of 1..max fields (pairwise distinct symbolic names of 0..1 bytes,
// values 0..1 symbolic bytes incl. empty, or numeric/float texts) / another type.
func c10Pre(m *MemDb, max int, mode int) hstate {
	switch vfChoice("h.kind", 3) {
	case kMissing:
		return hstate{kind: kMissing}
	case kWrong:
		m.db.Set("k", []byte("str"))
		return hstate{kind: kWrong}
	}
	n := 1 + vfChoice("h.n", max)
	h := NewHash()
	var fs []hfield
	for i := 0; i < n; i++ {
		nm := "h.f" + string(rune('0'+i))
		name := vfBytes(nm, 0, 1)
		for _, f := range fs {
			vfAssume(!vfBytesEq(f.name, name))
		}
		var val []byte
		switch mode {
		case vNum:
			val = vfNumStr(vfInt64(nm + ".v"))
		case vFloat:
			val = vfFloatStr(vfFloat64(nm + ".v"))
		default:
			val = vfBytes(nm+".v", 0, 1)
		}
		h.Set(string(name), val)
		fs = append(fs, hfield{name: name, val: val})
	}
	m.db.Set("k", h)
	vfAssert(permFields(hashRead(h), fs), "hash-pre-state-built")
	return hstate{kind: kHere, fields: fs}
}

func c10Post(m *MemDb, want hstate, label string) {
	v, ok := hGet(m, "k")
	switch want.kind {
	case kWrong:
		b, isB := v.([]byte)
		vfAssert(ok && isB && string(b) == "str", label+"-wrongtype-untouched")
	case kMissing:
		vfAssert(!ok, label+"-key-absent")
	default:
		if len(want.fields) == 0 {
			vfAssert(!ok, label+"-emptied-key-removed")
			return
		}
		vfAssert(ok, label+"-key-present")
		h, isH := v.(*Hash)
		vfAssert(isH, label+"-is-hash")
		vfAssert(permFields(hashRead(h), want.fields), label+"-content")
	}
	vfAssert(vfLocksHeld() == 0, label+"-no-lock-left")
}

func (s hstate) find(name []byte) int {
	for i, f := range s.fields {
		if vfBytesEq(f.name, name) {
			return i
		}
	}
	return -1
}

func (s hstate) with(name, val []byte) hstate {
	fs := append([]hfield(nil), s.fields...)
	if i := s.find(name); i >= 0 {
		fs[i] = hfield{name: name, val: val}
	} else {
		fs = append(fs, hfield{name: name, val: val})
	}
	return hstate{kind: kHere, fields: fs}
}

func c10Reply(got, want rv, st hstate, label string) {
	if st.kind == kWrong {
		vfAssert(isWrongType(got), label+"-wrongtype-reply")
		return
	}
	vfAssert(rvEq2(got, want), label+"-reply")
}

func VF_C10_hset() {
	m := hNewDb(2)
	st := c10Pre(m, 2, vBytes)
	n := 1 + vfChoice("npairs", 2)
	args := [][]byte{bs("HSET"), bs("k")}
	want := st
	added := int64(0)
	for i := 0; i < n; i++ {
		f := vfBytes("f"+string(rune('0'+i)), 0, 1)
		v := vfBytes("v"+string(rune('0'+i)), 0, 1)
		args = append(args, f, v)
		if st.kind != kWrong {
			if want.find(f) < 0 {
				added++
			}
			want = want.with(f, v)
		}
	}
	got := hExec(m, args...)
	c10Reply(got, vInt(added), st, "hset") // number of NEW fields
	c10Post(m, want, "hset")
}

func VF_C10_hsetnx() {
	m := hNewDb(2)
	st := c10Pre(m, 2, vBytes)
	f, v := vfBytes("f", 0, 1), vfBytes("v", 0, 1)
	got := hExec(m, bs("hsetnx"), bs("k"), f, v)
	want := st
	reply := vInt(0)
	if st.kind != kWrong && st.find(f) < 0 {
		reply = vInt(1)
		want = st.with(f, v)
	}
	c10Reply(got, reply, st, "hsetnx")
	c10Post(m, want, "hsetnx")
}

func VF_C10_hget() {
	m := hNewDb(2)
	st := c10Pre(m, 3, vBytes)
	f := vfBytes("f", 0, 1)
	got := hExec(m, bs("hget"), bs("k"), f)
	reply := vNil()
	if i := st.find(f); i >= 0 {
		reply = vBulk(st.fields[i].val) // an empty value is a value
	}
	c10Reply(got, reply, st, "hget")
	c10Post(m, st, "hget")
}

func VF_C10_hmget() {
	m := hNewDb(2)
	st := c10Pre(m, 2, vBytes)
	n := 1 + vfChoice("nfields", 2)
	args := [][]byte{bs("hmget"), bs("k")}
	var want []rv
	for i := 0; i < n; i++ {
		f := vfBytes("f"+string(rune('0'+i)), 0, 1)
		args = append(args, f)
		if j := st.find(f); j >= 0 {
			want = append(want, vBulk(st.fields[j].val))
		} else {
			want = append(want, vNil())
		}
	}
	got := hExec(m, args...)
	c10Reply(got, vArr(want), st, "hmget") // a missing key yields one nil per requested field
	c10Post(m, st, "hmget")
}

func VF_C10_hdel() {
	m := hNewDb(2)
	st := c10Pre(m, 3, vBytes)
	n := 1 + vfChoice("nfields", 2)
	args := [][]byte{bs("hdel"), bs("k")}
	want := st
	cnt := int64(0)
	for i := 0; i < n; i++ {
		f := vfBytes("f"+string(rune('0'+i)), 0, 1)
		args = append(args, f)
		if j := want.find(f); j >= 0 && st.kind == kHere {
			cnt++
			fs := append([]hfield(nil), want.fields[:j]...)
			fs = append(fs, want.fields[j+1:]...)
			want = hstate{kind: kHere, fields: fs}
		}
	}
	got := hExec(m, args...)
	c10Reply(got, vInt(cnt), st, "hdel")
	c10Post(m, want, "hdel")
}

func VF_C10_hexists_hlen_hstrlen() {
	m := hNewDb(2)
	st := c10Pre(m, 3, vBytes)
	f := vfBytes("f", 0, 1)
	ex, sl := int64(0), int64(0)
	if i := st.find(f); i >= 0 {
		ex = 1
		sl = int64(len(st.fields[i].val))
	}
	c10Reply(hExec(m, bs("hexists"), bs("k"), f), vInt(ex), st, "hexists")
	c10Reply(hExec(m, bs("hlen"), bs("k")), vInt(int64(len(st.fields))), st, "hlen")
	c10Reply(hExec(m, bs("hstrlen"), bs("k"), f), vInt(sl), st, "hstrlen")
	c10Post(m, st, "hread")
}

func arrBulks(r rv) ([][]byte, bool) {
	if r.k != rArr {
		return nil, false
	}
	var out [][]byte
	for _, e := range r.a {
		if e.k != rBulk {
			return nil, false
		}
		out = append(out, e.b)
	}
	return out, true
}

func c10ReadAll(which int) {
	m := hNewDb(2)
	st := c10Pre(m, 3, vBytes)
	var names, vals [][]byte
	for _, f := range st.fields {
		names = append(names, f.name)
		vals = append(vals, f.val)
	}
	cmds := []string{"hkeys", "hvals", "hgetall"}
	got := hExecPerm(m, bs(cmds[which]), bs("k"))
	if st.kind == kWrong {
		vfAssert(isWrongType(got), cmds[which]+"-wrongtype-reply")
		return
	}
	g, ok := arrBulks(got)
	vfAssert(ok, cmds[which]+"-reply-kind")
	switch which {
	case 0:
		vfAssert(permBytes(g, names), "hkeys-reply")
	case 1:
		vfAssert(permBytes(g, vals), "hvals-reply")
	default:
		vfAssert(len(g) == 2*len(st.fields), "hgetall-reply-shape")
		var pairs []hfield
		for i := 0; i+1 < len(g); i += 2 {
			pairs = append(pairs, hfield{name: g[i], val: g[i+1]})
		}
		vfAssert(permFields(pairs, st.fields), "hgetall-reply")
	}
	c10Post(m, st, cmds[which])
}

func VF_C10_hkeys()   { c10ReadAll(0) }
func VF_C10_hvals()   { c10ReadAll(1) }
func VF_C10_hgetall() { c10ReadAll(2) }

func VF_C10_hincrby() {
	m := hNewDb(2)
	mode := vNum
	if vfChoice("bytevalues", 2) == 1 {
		mode = vBytes
	}
	st := c10Pre(m, 2, mode)
	f := vfBytes("f", 0, 1)
	d := vfInt64("delta")
	got := hExec(m, bs("hincrby"), bs("k"), f, vfNumStr(d))
	if st.kind == kWrong {
		vfAssert(isWrongType(got), "hincrby-wrongtype-reply")
		c10Post(m, st, "hincrby")
		return
	}
	cur := int64(0)
	if i := st.find(f); i >= 0 {
		n, ok, len := refParse(st.fields[i].val)
		if len {
			vfLenient("hincrby-noncanonical-integer")
			return
		}
		if !ok {
			vfAssert(got.k == rErr, "hincrby-not-an-integer-reply")
			c10Post(m, st, "hincrby-not-an-integer") // incl.: an empty value is not an integer, nothing created
			return
		}
		cur = n
	}
	if (d > 0 && cur > 9223372036854775807-d) || (d < 0 && cur < -9223372036854775808-d) {
		vfAssert(got.k == rErr, "hincrby-overflow-reply")
		c10Post(m, st, "hincrby-overflow")
		return
	}
	vfAssert(rvEq(got, vInt(cur+d)), "hincrby-reply")
	c10Post(m, st.with(f, vfNumStr(cur+d)), "hincrby")
}

func VF_C10_hincrbyfloat() {
	m := hNewDb(2)
	st := c10Pre(m, 1, vFloat)
	f := vfBytes("f", 0, 1)
	g := vfFloat64("incr")
	vfAssume(g == g && g-g == 0)
	got := hExec(m, bs("hincrbyfloat"), bs("k"), f, vfFloatStr(g))
	if st.kind == kWrong {
		vfAssert(isWrongType(got), "hincrbyfloat-wrongtype-reply")
		c10Post(m, st, "hincrbyfloat")
		return
	}
	cur := float64(0)
	if i := st.find(f); i >= 0 {
		x, _ := vfFloatOf(st.fields[i].val)
		vfAssume(x == x && x-x == 0)
		cur = x
	}
	r := cur + g
	if r != r || r-r != 0 {
		vfAssert(got.k == rErr, "hincrbyfloat-nan-inf-reply")
		c10Post(m, st, "hincrbyfloat-nan-inf")
		return
	}
	vfAssert(got.k == rBulk, "hincrbyfloat-reply-kind")
	x, ok := vfFloatOf(got.b)
	vfAssert(ok && x == r, "hincrbyfloat-reply")
	c10Post(m, st.with(f, vfFloatStr(r)), "hincrbyfloat")
}

// a failed numeric update on a missing key must not leave an empty hash behind
func VF_C10_hincrby_fresh_key_error() {
	m := hNewDb(2)
	bad := vfBytes("bad", 0, 2)
	_, ok, _ := refParse(bad)
	vfAssume(!ok && len(bad) > 0)
	got := hExec(m, bs("hincrby"), bs("k"), bs("f"), bad)
	vfAssert(got.k == rErr, "hincrby-bad-increment-reply")
	c10Post(m, hstate{kind: kMissing}, "hincrby-bad-increment")
}

func VF_C10_hrandfield() {
	m := hNewDb(2)
	st := c10Pre(m, 3, vBytes)
	mode := vfChoice("mode", 3) // 0: no count, 1: count, 2: count WITHVALUES
	var got rv
	var cnt int64
	switch mode {
	case 0:
		got = hExecPerm(m, bs("hrandfield"), bs("k"))
	case 1:
		cnt = vfInt64("count")
		vfAssume(cnt > -4 && cnt < 6) // larger |count| only repeats the loop: C04's subject
		got = hExecPerm(m, bs("hrandfield"), bs("k"), vfNumStr(cnt))
	default:
		cnt = vfInt64("count")
		vfAssume(cnt > -4 && cnt < 6)
		got = hExecPerm(m, bs("hrandfield"), bs("k"), vfNumStr(cnt), vfCase("wv", "withvalues"))
	}
	if st.kind == kWrong {
		vfAssert(isWrongType(got), "hrandfield-wrongtype-reply")
		return
	}
	n := int64(len(st.fields))
	if mode == 0 {
		if n == 0 {
			vfAssert(got.k == rNil, "hrandfield-nocount-missing-reply")
		} else {
			vfAssert(got.k == rBulk && st.find(got.b) >= 0, "hrandfield-nocount-reply")
		}
		c10Post(m, st, "hrandfield")
		return
	}
	g, ok := arrBulks(got)
	vfAssert(ok, "hrandfield-reply-kind")
	exp := cnt
	if cnt > n {
		exp = n
	}
	if cnt < 0 {
		exp = -cnt
		if n == 0 {
			exp = 0
		}
	}
	per := int64(1)
	if mode == 2 {
		per = 2
	}
	vfAssert(int64(len(g)) == exp*per, "hrandfield-count")
	for i := 0; i < len(g); i += int(per) {
		j := st.find(g[i])
		vfAssert(j >= 0, "hrandfield-returns-existing-field")
		if mode == 2 {
			vfAssert(vfBytesEq(g[i+1], st.fields[j].val), "hrandfield-withvalues-pair")
		}
		if cnt > 0 {
			for k := 0; k < i; k += int(per) {
				vfAssert(!vfBytesEq(g[k], g[i]), "hrandfield-positive-count-distinct")
			}
		}
	}
	c10Post(m, st, "hrandfield")
}

// a refused HINCRBYFLOAT (increment that is not a number) changes nothing - in particular it does not
// leave a freshly created empty hash behind
func VF_C10_hincrbyfloat_bad_increment() {
	m := hNewDb(2)
	st := c10Pre(m, 2, vBytes)
	bad := [][]byte{bs("abc"), bs(""), bs("1.2.3"), bs("--1")}[vfChoice("bad", 4)]
	got := hExec(m, bs("hincrbyfloat"), bs("k"), bs("f"), bad)
	vfAssert(got.k == rErr, "hincrbyfloat-bad-increment-reply")
	c10Post(m, st, "hincrbyfloat-bad-increment")
}
