//go:build verif

package memdb

// C04: no client input can crash, wedge or hang the server.
// Every registered command x every argument vector drawn from a small alphabet per position
// (symbolic bytes, any int64 as a numeral, key names of every stored type, the command's own option
// words, existing member names) against a keyspace holding one key of every type.
// Obligations per path: no panic below ExecCommand, no lock stripe left held, no loop or allocation
// driven by an argument value beyond the bound, and a follow-up command on the same key returns.

import "sort"

type c04Spec struct {
	typ  byte     // type of the key argument: s string, n numeric string, l list, e set, h hash, z zset, x stream, - none
	opts []string // option words the executor knows
}

// number of arguments of each command's canonical form (the harness also tries fewer and more)
var c04Arity = map[string]int{
	"set": 2, "get": 1, "getrange": 3, "setrange": 3, "mget": 2, "mset": 2, "setex": 3, "setnx": 2, "strlen": 1,
	"incr": 1, "incrby": 2, "decr": 1, "decrby": 2, "incrbyfloat": 2, "append": 2, "ping": 1, "del": 2, "exists": 2,
	"keys": 1, "expire": 3, "persist": 1, "ttl": 1, "type": 1, "rename": 2, "llen": 1, "lindex": 2, "lpos": 4,
	"lpop": 2, "rpop": 2, "lpush": 2, "lpushx": 2, "rpush": 2, "rpushx": 2, "lset": 3, "lrem": 3, "ltrim": 3,
	"lrange": 3, "lmove": 4, "sadd": 2, "scard": 1, "sdiff": 2, "sdiffstore": 3, "sinter": 2, "sinterstore": 3,
	"sismember": 2, "smembers": 1, "smove": 3, "spop": 2, "srandmember": 2, "srem": 2, "sunion": 2, "sunionstore": 3,
	"sscan": 3, "hdel": 2, "hexists": 2, "hget": 2, "hgetall": 1, "hincrby": 3, "hincrbyfloat": 3, "hkeys": 1,
	"hlen": 1, "hmget": 2, "hset": 3, "hsetnx": 3, "hvals": 1, "hstrlen": 2, "hrandfield": 3, "zadd": 4, "zrange": 4,
	"zrem": 2, "zrank": 2, "xadd": 4, "xrange": 3, "publish": 2, "rconf": 3, "member": 1,
}

var c04Table = map[string]c04Spec{
	"set": {'s', []string{"nx", "xx", "get", "ex", "px", "exat", "keepttl"}}, "get": {'s', nil}, "getrange": {'s', nil},
	"setrange": {'s', nil}, "mget": {'s', nil}, "mset": {'s', nil}, "setex": {'s', nil}, "setnx": {'s', nil},
	"strlen": {'s', nil}, "incr": {'n', nil}, "incrby": {'n', nil}, "decr": {'n', nil}, "decrby": {'n', nil},
	"incrbyfloat": {'n', nil}, "append": {'s', nil},
	"ping": {'-', nil}, "del": {'s', nil}, "exists": {'s', nil}, "keys": {'-', []string{"*", "*x", "[", "\\"}},
	"expire": {'s', []string{"nx", "xx", "gt", "lt"}}, "persist": {'s', nil}, "ttl": {'s', nil}, "type": {'s', nil}, "rename": {'s', nil},
	"llen": {'l', nil}, "lindex": {'l', nil}, "lpos": {'l', []string{"rank", "count", "maxlen"}}, "lpop": {'l', nil}, "rpop": {'l', nil},
	"lpush": {'l', nil}, "lpushx": {'l', nil}, "rpush": {'l', nil}, "rpushx": {'l', nil}, "lset": {'l', nil}, "lrem": {'l', nil},
	"ltrim": {'l', nil}, "lrange": {'l', nil}, "lmove": {'l', []string{"left", "right"}},
	"sadd": {'e', nil}, "scard": {'e', nil}, "sdiff": {'e', nil}, "sdiffstore": {'e', nil}, "sinter": {'e', nil}, "sinterstore": {'e', nil},
	"sismember": {'e', nil}, "smembers": {'e', nil}, "smove": {'e', nil}, "spop": {'e', nil}, "srandmember": {'e', nil}, "srem": {'e', nil},
	"sunion": {'e', nil}, "sunionstore": {'e', nil}, "sscan": {'e', []string{"match", "count"}},
	"hdel": {'h', nil}, "hexists": {'h', nil}, "hget": {'h', nil}, "hgetall": {'h', nil}, "hincrby": {'h', nil}, "hincrbyfloat": {'h', nil},
	"hkeys": {'h', nil}, "hlen": {'h', nil}, "hmget": {'h', nil}, "hset": {'h', nil}, "hsetnx": {'h', nil}, "hvals": {'h', nil},
	"hstrlen": {'h', nil}, "hrandfield": {'h', []string{"withvalues"}},
	"zadd": {'z', []string{"nx", "xx", "gt", "lt", "ch", "incr"}}, "zrange": {'z', []string{"byscore", "bylex", "rev", "limit", "withscores"}},
	"zrem": {'z', nil}, "zrank": {'z', nil},
	"xadd": {'x', []string{"nomkstream", "maxlen", "minid", "limit", "*", "=", "~", "5-1"}}, "xrange": {'x', []string{"-", "+", "count", "1-1"}},
	"publish": {'-', nil}, "rconf": {'-', []string{"add", "delete", "update"}}, "member": {'-', []string{"list"}},
}

var c04Keys = map[byte]string{'s': "ks", 'n': "kn", 'l': "kl", 'e': "ke", 'h': "kh", 'z': "kz", 'x': "kx"}

func c04World() *MemDb {
	m := hNewDb(2)
	hExec(m, bs("set"), bs("ks"), bs("v"))
	hExec(m, bs("set"), bs("kn"), bs("5"))
	hExec(m, bs("rpush"), bs("kl"), bs("a"), bs("b"))
	hExec(m, bs("sadd"), bs("ke"), bs("a"), bs("b"))
	hExec(m, bs("hset"), bs("kh"), bs("a"), bs("1"))
	hExec(m, bs("zadd"), bs("kz"), bs("1"), bs("a"), bs("2"), bs("b"))
	hExec(m, bs("xadd"), bs("kx"), bs("1-1"), bs("a"), bs("b"))
	vfAssert(hCountKeys(m) == 7 && vfLocksHeld() == 0, "c04-world-built")
	return m
}

// c04Arg: one argument from the alphabet for this command and position.
func c04Arg(name string, sp c04Spec, first bool) []byte {
	if first && sp.typ != '-' {
		switch vfChoice(name, 4) {
		case 0:
			return bs(c04Keys[sp.typ])
		case 1:
			if sp.typ == 'l' {
				return bs("ks")
			}
			return bs("kl") // a key of another type
		case 2:
			return bs("nokey")
		}
		return vfBytes(name+".b", 0, 1)
	}
	// quick: 6 alternatives (+ option words); thorough adds three more boundary numerals
	nalt := 6
	if c04Wide {
		nalt = 9
	}
	k := vfChoice(name, nalt+1)
	if k == nalt {
		if len(sp.opts) == 0 {
			vfAssume(false)
		}
		w := sp.opts[vfChoice(name+".opt", len(sp.opts))]
		return vfCase(name+".case", w)
	}
	switch k {
	case 0:
		return vfBytes(name+".b", 0, 1)
	case 1:
		return vfNumStr(vfInt64(name + ".n"))
	case 2:
		if k, ok := c04Keys[sp.typ]; ok {
			return bs(k)
		}
		return bs("ks")
	case 3:
		if sp.typ == 'l' {
			return bs("ks")
		}
		return bs("kl")
	case 4:
		return bs("a") // an existing member / field / element
	case 5:
		return bs("9223372036854775807")
	case 6:
		return bs("0")
	case 7:
		return bs("-1")
	}
	return bs("-9223372036854775808")
}

var c04Wide bool

func c04Unused(sp c04Spec, name string) []byte {
	w := sp.opts[vfChoice(name+".opt", len(sp.opts))]
	return vfCase(name+".case", w)
}

func c04Names() []string {
	var names []string
	for n := range CmdTable {
		names = append(names, n)
	}
	sort.Strings(names)
	return names
}

// c04Run: one command of the slice [lo,hi) of the sorted command table with 0..maxArgs arguments.
func c04Run(lo, hi, maxArgs int) {
	vfOpt("hangcheck", 1)
	vfOpt("hashuf", 1)
	m := c04World()
	names := c04Names()
	if hi > len(names) {
		hi = len(names)
	}
	vfAssume(lo < hi)
	name := names[lo+vfChoice("cmd", hi-lo)]
	sp, known := c04Table[name]
	if !known {
		sp = c04Spec{typ: 's'}
	}
	if name == "blpop" || name == "brpop" || name == "subscribe" {
		return // blocking commands have their own harness
	}
	// argument counts: none, one, the canonical arity, one more (thorough: also two and arity+2)
	ar, okA := c04Arity[name]
	if !okA {
		ar = 2
	}
	counts := []int{0, ar}
	if ar >= 2 {
		counts = append(counts, 1)
	}
	if maxArgs > 0 {
		c04Wide = true
		counts = append(counts, ar+1, ar+2)
		if ar > 2 {
			counts = append(counts, 2)
		}
	}
	nargs := counts[vfChoice("nargs", len(counts))]
	args := [][]byte{vfCase("cmdcase", name)}
	for i := 0; i < nargs; i++ {
		args = append(args, c04Arg("a"+string(rune('0'+i)), sp, i == 0))
	}
	hExec(m, args...)
	vfAssert(vfLocksHeld() == 0, "stripe-left-locked-after-"+name)
	// follow-up probes: same key, other keys of both stripes
	for _, k := range []string{"ks", "kn", "kl", "ke", "kh", "kz", "kx", "nokey"} {
		hExec(m, bs("exists"), bs(k))
		hExec(m, bs("type"), bs(k))
	}
	hExec(m, bs("lrange"), bs("kl"), bs("0"), bs("-1"))
	hExec(m, bs("smembers"), bs("ke"))
	hExec(m, bs("hgetall"), bs("kh"))
	hExec(m, bs("zrange"), bs("kz"), bs("0"), bs("-1"))
	hExec(m, bs("xrange"), bs("kx"), bs("-"), bs("+"))
	vfAssert(vfLocksHeld() == 0, "stripe-left-locked-after-probes")
}

func VF_C04_any_a_quick() { c04Run(0, 24, 0) }
func VF_C04_any_b_quick() { c04Run(24, 48, 0) }
func VF_C04_any_c_quick() { c04Run(48, 72, 0) }
func VF_C04_any_d_quick() { c04Run(72, 200, 0) }

// The level-1 generator (three more boundary numerals, two more argument counts) does not finish: the first
// quarter of the command table alone ran 762 314 paths in an hour (all discharged) and was cut. The
// thorough tier therefore registers the quick generator for the command sweep; what it adds is in the
// other harnesses (longer patterns, longer arbitrary streams).
func VF_C04_any_a_thorough() { c04Run(0, 24, 0) }
func VF_C04_any_b_thorough() { c04Run(24, 48, 0) }
func VF_C04_any_c_thorough() { c04Run(48, 72, 0) }
func VF_C04_any_d_thorough() { c04Run(72, 200, 0) }

// unknown command names, in any case, never reach an executor
func VF_C04_unknown() {
	m := c04World()
	name := vfBytes("name", 0, 2)
	got := hExec(m, name, bs("ks"))
	_ = got
	vfAssert(vfLocksHeld() == 0, "stripe-left-locked-after-unknown")
}

// KEYS with every pattern skeleton (metacharacters + symbolic literals) over a live keyspace
func c04KeysPattern(maxLen int) {
	vfOpt("hangcheck", 1)
	m := c04World()
	n := vfChoice("patlen", maxLen+1)
	pat := make([]byte, n)
	metas := []byte{'*', '?', '[', ']', '^', '-', '\\'}
	for i := 0; i < n; i++ {
		nm := "p" + string(rune('0'+i))
		k := vfChoice(nm+".class", len(metas)+1)
		if k < len(metas) {
			pat[i] = metas[k]
		} else {
			pat[i] = vfByte(nm)
		}
	}
	hExec(m, bs("keys"), pat)
	vfAssert(vfLocksHeld() == 0, "stripe-left-locked-after-keys")
}

func VF_C04_keys_pattern_quick()    { c04KeysPattern(4) }
func VF_C04_keys_pattern_thorough() { c04KeysPattern(5) }

// ---------------------------------------------------------------------------
// VF_C04_long_forms: the option-rich forms that need more arguments than the generic generator's bound:
// every numeric option value is an arbitrary int64 (as its canonical numeral) or a symbolic byte string.
// "N" marks a numeric slot.
var c04LongForms = [][]string{
	{"zrange", "kz", "0", "9", "byscore", "limit", "N", "N"},
	{"zrange", "kz", "9", "0", "byscore", "rev", "limit", "N", "N"},
	{"zrange", "kz", "-inf", "+inf", "byscore", "limit", "N", "N"},
	{"zrange", "kz", "(1", "2", "byscore", "limit", "N", "N"},
	{"zrange", "kz", "N", "N", "rev", "withscores"},
	{"zrange", "kz", "-", "+", "bylex", "limit", "N", "N"},
	{"zadd", "kz", "gt", "ch", "incr", "N", "a"},
	{"zadd", "kz", "nx", "N", "a", "N", "c"},
	{"lpos", "kl", "a", "rank", "N", "count", "N", "maxlen", "N"},
	{"lpos", "kl", "a", "maxlen", "N", "rank", "N"},
	{"xadd", "kx", "nomkstream", "maxlen", "~", "N", "limit", "N", "*", "f", "v"},
	{"xadd", "kx", "minid", "=", "N", "9-9", "f", "v"},
	{"xadd", "kx", "maxlen", "N", "9-N", "f", "v"},
	{"set", "ks", "v", "px", "N", "nx", "get"},
	{"set", "ks", "v", "exat", "N", "xx", "keepttl"},
	{"hrandfield", "kh", "N", "withvalues"},
	{"srandmember", "ke", "N"},
	{"spop", "ke", "N"},
	{"lpop", "kl", "N"},
	{"lrange", "kl", "N", "N"},
	{"ltrim", "kl", "N", "N"},
	{"lrem", "kl", "N", "a"},
	{"lset", "kl", "N", "v"},
	{"lindex", "kl", "N"},
	{"getrange", "ks", "N", "N"},
	{"setrange", "ks", "N", "v"},
	{"expire", "ks", "N", "gt"},
	// multi-key forms with a key repeated non-adjacently (the same stripe reached twice)
	{"mset", "ks", "v", "kn", "w", "ks", "x"},
	{"mget", "ks", "kl", "ks", "nokey"},
	{"del", "nokey", "kn", "nokey"},
	{"exists", "ks", "kn", "ks"},
	{"sunion", "ke", "nokey", "ke"},
	{"sdiffstore", "ke", "ke", "kl", "ke"},
	{"sinterstore", "kd", "ke", "kd", "ke"},
}

func VF_C04_long_forms() {
	vfOpt("hangcheck", 1)
	vfOpt("hashuf", 1)
	m := c04World()
	form := c04LongForms[vfChoice("form", len(c04LongForms))]
	var args [][]byte
	nN := 0
	for _, a := range form {
		if a == "N" {
			nN++
		}
	}
	bytesSlot := vfChoice("bytes-slot", nN+1) // 0: every numeric slot is a numeral; i: the i-th slot is arbitrary bytes
	slot := 0
	for i, a := range form {
		switch {
		case a == "N":
			slot++
			if slot == bytesSlot {
				args = append(args, vfBytes("opt"+string(rune('0'+i)), 0, 2))
			} else {
				args = append(args, vfNumStr(vfInt64("n"+string(rune('0'+i)))))
			}
		case a == "9-N":
			args = append(args, append([]byte("9-"), vfNumStr(vfInt64("seq"))...))
		case i == 0:
			args = append(args, vfCase("cmdcase", a))
		default:
			args = append(args, bs(a))
		}
	}
	hExec(m, args...)
	vfAssert(vfLocksHeld() == 0, "stripe-left-locked-after-"+form[0])
	for _, k := range []string{"ks", "kl", "ke", "kh", "kz", "kx"} {
		hExec(m, bs("exists"), bs(k))
	}
	vfAssert(vfLocksHeld() == 0, "stripe-left-locked-after-probes")
}

// VF_C04_blocking_pops: BLPOP / BRPOP over two keys, each missing / a list / a key of another type, under
// virtual time: the command returns by its timeout, leaves no stripe locked and the keys stay usable
// (the list-semantics part of the same run is C09's).
func VF_C04_blocking_pops() { c09Block(vfChoice("left", 2) == 1) }
