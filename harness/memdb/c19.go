//go:build verif

package memdb

// C19: a published message reaches exactly the current subscribers of its channel, once, intact and
// in publish order; PUBLISH reports the number of receivers; concurrent subscribe / publish /
// disconnect never crash, race or deadlock.

import (
	"context"
	"net"
	"time"
)

// c19Pushes decodes everything written to a subscriber connection into push messages
func c19Pushes(c *vfConn) (msgs []rv, ok bool) {
	for _, w := range c.Log {
		i := 0
		for i < len(w) {
			v, n, good := refDecode(w, i, 0)
			if !good {
				return nil, false
			}
			msgs = append(msgs, v)
			i = n
		}
	}
	return msgs, true
}

func isMessage(v rv, ch, payload []byte) bool {
	return v.k == rArr && len(v.a) == 3 && v.a[0].k == rBulk && string(v.a[0].b) == "message" &&
		v.a[1].k == rBulk && vfBytesEq(v.a[1].b, ch) && v.a[2].k == rBulk && vfBytesEq(v.a[2].b, payload)
}

type c19Sub struct {
	conn   *vfConn
	ch     int // channel index
	cancel context.CancelFunc
	gone   bool
}

func VF_C19_publish_seq() {
	m := hNewDb(2)
	chans := [][]byte{bs("news"), bs("sport")}
	// 0..3 subscriptions, each to one of the channels, some on connections whose writes fail
	n := vfChoice("nsubs", 4)
	var subs []*c19Sub
	for i := 0; i < n; i++ {
		nm := "sub" + string(rune('0'+i))
		s := &c19Sub{conn: vfNewConn(nm, false), ch: vfChoice(nm+".chan", 2)}
		if vfBool(nm + ".dead") {
			s.conn.FailWrites = true
		}
		ctx, cancel := context.WithCancel(context.Background())
		s.cancel = cancel
		r := m.ExecCommand(ctx, [][]byte{bs("subscribe"), chans[s.ch]}, net.Conn(s.conn))
		c03Check(r, "subscribe-ack")
		subs = append(subs, s)
	}
	// optionally one subscriber disconnects before the publish (its clean-up goroutine runs to the end)
	if n > 0 && vfBool("one_leaves") {
		k := vfChoice("leaver", n)
		subs[k].cancel()
		subs[k].gone = true
		vfSettle()
	}
	target := vfChoice("target", 2)
	msg1, msg2 := vfBytes("msg1", 0, 2), vfBytes("msg2", 0, 1)
	r1 := hExec(m, bs("publish"), chans[target], msg1)
	r2 := hExec(m, vfCase("cmd", "publish"), chans[target], msg2)
	live := int64(0)
	for _, s := range subs {
		if s.ch == target && !s.gone && !s.conn.FailWrites {
			live++
		}
	}
	vfAssert(rvEq(r1, vInt(live)), "publish-reply-counts-receivers")
	vfAssert(rvEq(r2, vInt(live)), "publish-second-reply-counts-receivers")
	for _, s := range subs {
		msgs, ok := c19Pushes(s.conn)
		vfAssert(ok, "pushes-are-wellformed")
		if s.ch == target && !s.gone && !s.conn.FailWrites {
			vfAssert(len(msgs) == 2, "subscriber-gets-each-message-once")
			vfAssert(isMessage(msgs[0], chans[target], msg1) && isMessage(msgs[1], chans[target], msg2), "messages-intact-and-in-order")
		} else {
			vfAssert(len(msgs) == 0, "non-subscriber-gets-nothing")
		}
		if s.conn.FailWrites && s.ch == target && !s.gone {
			vfAssert(s.conn.Closed, "dead-subscriber-connection-closed")
		}
	}
	vfAssert(rvEq(hExec(m, bs("publish"), bs("nochannel"), msg1), vInt(0)), "publish-to-unknown-channel")
	vfAssert(vfLocksHeld() == 0, "pubsub-no-lock-left")
}

// one connection subscribing to two channels with a single command
func VF_C19_subscribe_many() {
	m := hNewDb(2)
	c := vfNewConn("S", false)
	ctx, cancel := context.WithCancel(context.Background())
	r := m.ExecCommand(ctx, [][]byte{bs("SUBSCRIBE"), bs("a"), bs("b")}, net.Conn(c))
	c03Check(r, "subscribe-ack")
	p := vfBytes("p", 0, 2)
	vfAssert(rvEq(hExec(m, bs("publish"), bs("b"), p), vInt(1)), "publish-b-count")
	vfAssert(rvEq(hExec(m, bs("publish"), bs("a"), p), vInt(1)), "publish-a-count")
	msgs, ok := c19Pushes(c)
	vfAssert(ok && len(msgs) == 2 && isMessage(msgs[0], bs("b"), p) && isMessage(msgs[1], bs("a"), p), "both-channels-deliver-in-order")
	cancel()
	vfSettle()
	vfAssert(rvEq(hExec(m, bs("publish"), bs("a"), p), vInt(0)), "after-disconnect-nothing-delivered")
	vfAssert(rvEq(hExec(m, bs("publish"), bs("b"), p), vInt(0)), "after-disconnect-nothing-delivered-b")
	msgs, _ = c19Pushes(c)
	vfAssert(len(msgs) == 2, "no-push-after-disconnect")
	// the channel table does not keep empty channels
	_, has := m.SubChans.item.Get("a")
	vfAssert(!has, "empty-channel-removed")
}

// concurrent operations on one channel: every schedule, with the race check
func c19Conc(which int) {
	vfOpt("concurrent", 1)
	vfOpt("racecheck", 1)
	vfOpt("preempt", c19Preempt)
	m := hNewDb(2)
	ch := bs("news")
	c1, c2 := vfNewConn("A", false), vfNewConn("B", false)
	bg := context.Background()
	var r1, r2 rv
	switch which {
	case 0: // SUBSCRIBE || SUBSCRIBE on a fresh channel: both end up subscribed
		vfSpawn(func() { m.ExecCommand(bg, [][]byte{bs("subscribe"), ch}, net.Conn(c1)) })
		vfSpawn(func() { m.ExecCommand(bg, [][]byte{bs("subscribe"), ch}, net.Conn(c2)) })
		vfSettle()
		vfOpt("racecheck", 0)
		vfOpt("concurrent", 0)
		vfAssert(rvEq(hExec(m, bs("publish"), ch, bs("x")), vInt(2)), "both-concurrent-subscribers-registered")
		vfAssert(len(c1.Log) == 1 && len(c2.Log) == 1, "both-concurrent-subscribers-receive")
	case 1: // SUBSCRIBE || PUBLISH: the subscriber gets the message or not, the count says which
		m.ExecCommand(bg, [][]byte{bs("subscribe"), ch}, net.Conn(c1))
		vfSpawn(func() { m.ExecCommand(bg, [][]byte{bs("subscribe"), ch}, net.Conn(c2)) })
		vfSpawn(func() { r1 = hExec(m, bs("publish"), ch, bs("x")) })
		vfSettle()
		vfAssert(len(c1.Log) == 1, "existing-subscriber-always-receives")
		vfAssert(r1.k == rInt && r1.n == int64(1+len(c2.Log)), "publish-count-equals-deliveries")
	case 2: // disconnect || PUBLISH
		ctx, cancel := context.WithCancel(bg)
		m.ExecCommand(ctx, [][]byte{bs("subscribe"), ch}, net.Conn(c1))
		m.ExecCommand(bg, [][]byte{bs("subscribe"), ch}, net.Conn(c2))
		vfSpawn(func() { cancel() })
		vfSpawn(func() { r1 = hExec(m, bs("publish"), ch, bs("x")) })
		vfSettle()
		vfAssert(len(c2.Log) == 1, "remaining-subscriber-always-receives")
		vfAssert(r1.k == rInt && r1.n == int64(len(c1.Log)+len(c2.Log)), "publish-count-equals-deliveries-with-leaver")
	case 3: // PUBLISH || PUBLISH: each subscriber gets both, in some order, each once
		m.ExecCommand(bg, [][]byte{bs("subscribe"), ch}, net.Conn(c1))
		vfSpawn(func() { r1 = hExec(m, bs("publish"), ch, bs("x")) })
		vfSpawn(func() { r2 = hExec(m, bs("publish"), ch, bs("y")) })
		vfSettle()
		vfAssert(rvEq(r1, vInt(1)) && rvEq(r2, vInt(1)), "concurrent-publish-counts")
		msgs, ok := c19Pushes(c1)
		vfAssert(ok && len(msgs) == 2, "concurrent-publishes-both-delivered-once")
		xy := isMessage(msgs[0], ch, bs("x")) && isMessage(msgs[1], ch, bs("y"))
		yx := isMessage(msgs[0], ch, bs("y")) && isMessage(msgs[1], ch, bs("x"))
		vfAssert(xy || yx, "concurrent-publishes-not-interleaved")
	case 4: // the last subscriber leaves || a new SUBSCRIBE: the newcomer is subscribed afterwards
		ctx, cancel := context.WithCancel(bg)
		m.ExecCommand(ctx, [][]byte{bs("subscribe"), ch}, net.Conn(c1))
		if vfIsSymbolic() {
			vfSpawn(func() { cancel() })
			vfSpawn(func() { m.ExecCommand(bg, [][]byte{bs("subscribe"), ch}, net.Conn(c2)) })
			vfSettle()
		} else {
			// natively the schedule gosx typically finds is forced with the channel's own lock: the leaver
			// and then the newcomer queue up behind it
			t, _ := m.SubChans.item.Get(string(ch))
			chn := t.(*Chan)
			chn.rw.Lock()
			cancel()
			time.Sleep(100 * time.Millisecond)
			vfSpawn(func() { m.ExecCommand(bg, [][]byte{bs("subscribe"), ch}, net.Conn(c2)) })
			time.Sleep(100 * time.Millisecond)
			chn.rw.Unlock()
			vfSettle()
		}
		vfOpt("racecheck", 0)
		vfOpt("concurrent", 0)
		r1 = hExec(m, bs("publish"), ch, bs("x"))
		vfAssert(rvEq(r1, vInt(1)), "subscriber-that-joined-while-the-last-one-left-is-counted")
		vfAssert(len(c2.Log) == 1 && len(c1.Log) == 0, "subscriber-that-joined-while-the-last-one-left-receives")
	}
	vfAssert(vfLocksHeld() == 0, "pubsub-conc-no-lock-left")
}

var c19Preempt = 2

func VF_C19_conc_sub_sub()   { c19Conc(0) }
func VF_C19_conc_sub_pub()   { c19Conc(1) }
func VF_C19_conc_leave_pub() { c19Conc(2) }
func VF_C19_conc_pub_pub()   { c19Conc(3) }
func VF_C19_conc_leave_sub() { c19Conc(4) }

// ---------------------------------------------------------------------------
// VF_C19_history: subscribe / leave / subscribe again on one channel: a publish reaches exactly the
// connections subscribed at that moment, each once, and the reply counts them.
func VF_C19_history() {
	m := hNewDb(2)
	ch := bs("news")
	conns := []*vfConn{vfNewConn("A", false), vfNewConn("B", false), vfNewConn("C", false)}
	cancels := make([]context.CancelFunc, 3)
	member := []bool{false, false, false}
	expect := []int{0, 0, 0}
	bg := context.Background()
	payload := vfBytes("p", 1, 1)
	for step := 0; step < 5; step++ {
		who := vfChoice("who", 3)
		switch vfChoice("op", 3) {
		case 0: // subscribe (if not a member)
			vfAssume(!member[who]) // steps without effect are not explored
			if !member[who] {
				ctx, cancel := context.WithCancel(bg)
				cancels[who] = cancel
				m.ExecCommand(ctx, [][]byte{bs("subscribe"), ch}, net.Conn(conns[who]))
				member[who] = true
			}
		case 1: // leave (disconnect)
			vfAssume(member[who])
			if member[who] {
				cancels[who]()
				vfSettle()
				member[who] = false
			}
		case 2: // publish
			vfAssume(who == 0) // a publish does not depend on "who"
			n := 0
			for i := range member {
				if member[i] {
					n++
					expect[i]++
				}
			}
			vfAssert(rvEq(hExec(m, bs("publish"), ch, payload), vInt(int64(n))), "history-publish-count")
		}
	}
	for i, c := range conns {
		msgs, ok := c19Pushes(c)
		vfAssert(ok && len(msgs) == expect[i], "history-deliveries")
		for _, mm := range msgs {
			vfAssert(isMessage(mm, ch, payload), "history-message-intact")
		}
	}
}

// VF_C19_same_order: two publishers, two subscribers whose connections accept a write only when the
// harness takes it: whatever the interleaving, both subscribers see the two messages in the same order.
func c19SameOrderOnce() bool {
	m := hNewDb(2)
	ch := bs("news")
	s1, s2 := vfNewConn("A", true), vfNewConn("B", true)
	bg := context.Background()
	m.ExecCommand(bg, [][]byte{bs("subscribe"), ch}, net.Conn(s1))
	m.ExecCommand(bg, [][]byte{bs("subscribe"), ch}, net.Conn(s2))
	vfSpawn(func() { hExec(m, bs("publish"), ch, bs("x")) })
	vfSpawn(func() { hExec(m, bs("publish"), ch, bs("y")) })
	var o1, o2 [][]byte
	for len(o1)+len(o2) < 4 {
		select {
		case b := <-s1.Out:
			o1 = append(o1, b)
		case b := <-s2.Out:
			o2 = append(o2, b)
		}
	}
	vfSettle()
	if len(o1) != 2 || len(o2) != 2 {
		return false
	}
	return string(o1[0]) == string(o2[0]) && string(o1[1]) == string(o2[1])
}

func VF_C19_same_order() {
	vfOpt("maporder", 1)
	vfOpt("concurrent", 1) // every scheduler choice at blocking points
	vfOpt("preempt", 0)
	if vfIsSymbolic() {
		vfAssert(c19SameOrderOnce(), "subscribers-see-publishes-in-different-orders")
		return
	}
	// native replay: goroutine scheduling, select and map iteration are random - repeat
	for try := 0; try < 200; try++ {
		vfAssert(c19SameOrderOnce(), "subscribers-see-publishes-in-different-orders")
	}
}
