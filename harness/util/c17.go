//go:build verif

package util

// C17: util.PattenMatch against a reference matcher transcribed from the documented glob grammar.

const (
	c17Star = iota
	c17Quest
	c17Open
	c17Close
	c17Caret
	c17Dash
	c17Bslash
	c17Lit
	c17NClass
)

func c17IsMeta(b byte) bool {
	return b == '*' || b == '?' || b == '[' || b == ']' || b == '^' || b == '-' || b == '\\'
}

// c17PatByte: one pattern position = a metacharacter (forked) or a symbolic non-meta literal.
func c17PatByte(name string) byte {
	switch vfChoice(name+".class", c17NClass) {
	case c17Star:
		return '*'
	case c17Quest:
		return '?'
	case c17Open:
		return '['
	case c17Close:
		return ']'
	case c17Caret:
		return '^'
	case c17Dash:
		return '-'
	case c17Bslash:
		return '\\'
	}
	b := vfByte(name)
	vfAssume(!c17IsMeta(b))
	return b
}

// refClass parses a class body starting after '['. ok=false: unterminated (broken pattern).
// amb=true: the documented grammar does not say what the class means (skipped by the harness).
// Returns whether c is in the set, and the index just past the closing ']'.
func refClass(p string, i int, c byte, have bool) (in bool, next int, ok bool, amb bool) {
	neg := false
	if i < len(p) && p[i] == '^' {
		neg = true
		i++
	}
	n := 0
	for i < len(p) {
		if p[i] == ']' {
			if n == 0 {
				return false, 0, true, true // "[]" / "[^]": unspecified
			}
			if neg {
				in = !in
			}
			return in && have, i + 1, true, false
		}
		var lo byte
		if p[i] == '\\' {
			if i+1 >= len(p) {
				return false, 0, false, false // trailing backslash: broken
			}
			lo = p[i+1]
			i += 2
		} else {
			if p[i] == '-' || p[i] == '[' || p[i] == '^' {
				amb = true // a bare '-', '[' or '^' as a class member: unspecified
			}
			lo = p[i]
			i++
		}
		n++
		if i+1 < len(p) && p[i] == '-' && p[i+1] != ']' {
			var hi byte
			if p[i+1] == '\\' {
				if i+2 >= len(p) {
					return false, 0, false, false
				}
				hi = p[i+2]
				i += 3
			} else {
				if p[i+1] == '-' || p[i+1] == '[' || p[i+1] == '^' {
					amb = true
				}
				hi = p[i+1]
				i += 2
			}
			if lo > hi {
				amb = true // reversed range: unspecified
			}
			if have && c >= lo && c <= hi {
				in = true
			}
		} else {
			if i < len(p) && p[i] == '-' {
				amb = true // "a-]": trailing dash unspecified
			}
			if have && c == lo {
				in = true
			}
		}
		if amb {
			return false, 0, true, true
		}
	}
	return false, 0, false, false // unterminated
}

// refGlob is the documented grammar, directly. Patterns with unspecified constructs are excluded
// by the caller (refAmb), so class parsing here can ignore the amb flag.
func refGlob(p, s string) bool {
	if len(p) == 0 {
		return len(s) == 0
	}
	switch p[0] {
	case '*':
		for i := 0; i <= len(s); i++ {
			if refGlob(p[1:], s[i:]) {
				return true
			}
		}
		return false
	case '?':
		if len(s) == 0 {
			return false
		}
		return refGlob(p[1:], s[1:])
	case '[':
		if len(s) == 0 {
			return false
		}
		in, next, ok, _ := refClass(p, 1, s[0], true)
		if !ok || !in {
			return false
		}
		return refGlob(p[next:], s[1:])
	case '\\':
		if len(p) < 2 || len(s) == 0 || s[0] != p[1] {
			return false
		}
		return refGlob(p[2:], s[1:])
	}
	// ']', '^', '-' outside a class are ordinary bytes
	if len(s) == 0 || s[0] != p[0] {
		return false
	}
	return refGlob(p[1:], s[1:])
}

// refBroken: the pattern is syntactically broken (unterminated class / trailing backslash).
// refAmb reports whether the rest of the pattern contains an unspecified construct.
func refAmb(p string) (bool, bool) {
	i := 0
	for i < len(p) {
		switch p[i] {
		case '\\':
			i += 2
		case '[':
			_, next, ok, amb := refClass(p, i+1, 0, false)
			if amb {
				return false, true
			}
			if !ok {
				return false, false
			}
			i = next
		default:
			i++
		}
	}
	return false, false
}

func c17Run(maxPat, maxSub int) {
	np := vfChoice("patlen", maxPat+1)
	pb := make([]byte, np)
	for i := 0; i < np; i++ {
		pb[i] = c17PatByte("p" + string(rune('0'+i)))
	}
	sub := vfString("s", 0, maxSub)
	pat := string(pb)
	_, amb := refAmb(pat)
	vfAssume(!amb)
	want := refGlob(pat, sub)
	got := PattenMatch(pat, sub)
	vfAssert(got == want, "glob-result")
}

func VF_C17_match_quick()    { c17Run(4, 2) }
func VF_C17_match5_quick()   { c17Run(5, 1) }
func VF_C17_match_thorough() { c17Run(5, 3) }
