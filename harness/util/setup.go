//go:build verif

package util

func vfNativeSetup() {}
