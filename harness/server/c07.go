//go:build verif

package server

// C07 / C08 (RedisGO's own cluster glue on the server side): reply rendezvous between connection
// handlers and the apply loop, two nodes applying the same committed order, determinism of command
// application across replicas, and what a restart after a snapshot gives back. The harness plays the
// Raft layer (ordering and delivery of committed proposals); etcd/raft itself is C15, the files C16,
// raftexample's Ready handling / snapshot arithmetic are in harness/raftexample.

import (
	"context"
	"time"

	"github.com/innovationb1ue/RedisGO/raftexample"
	"github.com/innovationb1ue/RedisGO/resp"
	"go.etcd.io/etcd/raft/v3/raftpb"
)

// VF_C07_own_reply: two clients of one node issue commands concurrently (every interleaving of the two
// connection handlers, the pump and the apply loop within the pre-emption bound, with the data-race
// check): each receives the reply to its own command and nobody hangs.
func VF_C07_own_reply() {
	// happens-before race detection does not depend on the schedule actually taken: every access pair of
	// different threads that no synchronisation orders is reported. The schedule space of two full
	// connection handlers (8 threads) is not enumerated; the order in which the two proposals commit is.
	vfOpt("racecheck", 1)
	cl := c14Start()
	c2 := cl.connect("C2")
	// the harness thread is both clients and the Raft layer; the two connection handlers, their parser
	// goroutines and the apply loop run concurrently with it and with each other
	cl.conn.In <- vfEncode(bs("set"), bs("k"), bs("v"))
	c2.In <- vfEncode(bs("strlen"), bs("nokey"))
	for i := 0; i < 2; i++ {
		p := <-cl.proposeC // arrival order is whatever the schedule makes it
		done := make(chan struct{}, 1)
		cl.commitC <- &raftexample.RaftCommit{Data: []*raftexample.RaftProposal{c14JSON(p)}, ApplyDoneC: done}
	}
	r1 := <-cl.conn.Out
	r2 := <-c2.Out
	vfAssert(string(r1) == "+OK\r\n", "client-1-got-its-own-reply")
	vfAssert(string(r2) == ":0\r\n", "client-2-got-its-own-reply")
}

// VF_C07_late_waiter: the entry is applied before the proposing handler has started to wait for its
// result (the schedule in which commit is faster than the handler): the reply must still arrive.
func VF_C07_late_waiter() {
	vfOpt("concurrent", 1)
	vfOpt("preempt", 0)
	cl := c14Start()
	cl.conn.In <- vfEncode(bs("incr"), bs("n"))
	p := <-cl.proposeC
	done := make(chan struct{}, 1)
	cl.commitC <- &raftexample.RaftCommit{Data: []*raftexample.RaftProposal{c14JSON(p)}, ApplyDoneC: done}
	r1 := <-cl.conn.Out
	vfAssert(string(r1) == ":1\r\n", "reply-lost-when-apply-is-fast")
}

// VF_C07_slow_commit: Raft takes its time to commit (no quorum for a while, a leader change that keeps the
// entry): virtual time passes while the handler waits for its result. The command is handed to Raft once -
// nothing on the apply side could tell a second copy from a new command - and takes effect once.
func VF_C07_slow_commit() {
	vfOpt("timers", 8)
	cl := c14Start()
	cl.conn.In <- vfEncode(bs("incr"), bs("n"))
	p := <-cl.proposeC
	wait := 30 * time.Second
	if !vfIsSymbolic() {
		wait = 5 * time.Second
	}
	select {
	case <-cl.proposeC:
		vfAssert(false, "command-proposed-twice-while-commit-is-slow")
	case <-time.After(wait):
	}
	done := make(chan struct{}, 1)
	cl.commitC <- &raftexample.RaftCommit{Data: []*raftexample.RaftProposal{c14JSON(p)}, ApplyDoneC: done}
	r1 := <-cl.conn.Out
	vfAssert(string(r1) == ":1\r\n", "slow-commit-reply")
	vfAssert(string(cl.do(bs("get"), bs("n"))) == "$1\r\n1\r\n", "slow-commit-applied-once")
}

// two nodes; every committed proposal is delivered to both apply loops in the same order
type c07Node struct {
	*c14Cluster
}

func c07Deliver(nodes []*c07Node, p *raftexample.RaftProposal) {
	for _, n := range nodes {
		done := make(chan struct{}, 1)
		n.commitC <- &raftexample.RaftCommit{Data: []*raftexample.RaftProposal{c14JSON(p)}, ApplyDoneC: done}
		<-done
	}
}

// VF_C07_two_nodes: client X on node 1 and client Y on node 2 (the two connections have the same
// remote address, as two clients of different nodes may) issue SET k v and GET k; Raft orders the two
// proposals either way; both nodes apply both. Each client gets the reply of its own command, the
// read is consistent with the agreed order, and both keyspaces are equal afterwards.
func VF_C07_two_nodes() {
	n1 := &c07Node{c14Start()}
	n2 := &c07Node{c14Start()}
	nodes := []*c07Node{n1, n2}
	v := vfBytes("v", 1, 2)
	for _, b := range v {
		vfAssume(b < 0x80)
	}
	n1.conn.In <- vfEncode(bs("set"), bs("k"), v)
	n2.conn.In <- vfEncode(bs("get"), bs("k"))
	p1 := <-n1.proposeC
	p2 := <-n2.proposeC
	setFirst := vfChoice("order", 2) == 0
	if setFirst {
		c07Deliver(nodes, p1)
		c07Deliver(nodes, p2)
	} else {
		c07Deliver(nodes, p2)
		c07Deliver(nodes, p1)
	}
	r1 := <-n1.conn.Out
	r2 := <-n2.conn.Out
	vfAssert(string(r1) == "+OK\r\n", "writer-got-its-own-reply")
	if setFirst {
		vfAssert(vfBytesEq(r2, append(append([]byte("$"+string(rune('0'+len(v)))+"\r\n"), v...), '\r', '\n')), "read-after-write-in-log-order")
	} else {
		vfAssert(string(r2) == "$-1\r\n", "read-before-write-in-log-order")
	}
	// same log prefix => same keyspace
	g1 := hExecMgr(n1.mgr, bs("get"), bs("k"))
	g2 := hExecMgr(n2.mgr, bs("get"), bs("k"))
	vfAssert(vfBytesEq(g1, g2), "replicas-diverged")
}

// c07Same: two reply objects carry the same answer (integers compared as numbers, so that a symbolic
// TTL or stream ID does not have to be rendered as text)
func c07Same(x, y resp.RedisData) bool {
	if x == nil || y == nil {
		return x == nil && y == nil
	}
	switch a := x.(type) {
	case *resp.IntData:
		b, ok := y.(*resp.IntData)
		return ok && a.Data() == b.Data()
	case *resp.BulkData:
		b, ok := y.(*resp.BulkData)
		if !ok || (a.Data() == nil) != (b.Data() == nil) {
			return false
		}
		return vfBytesEq(a.Data(), b.Data())
	case *resp.StringData:
		b, ok := y.(*resp.StringData)
		return ok && a.Data() == b.Data()
	case *resp.ErrorData:
		_, ok := y.(*resp.ErrorData)
		return ok
	case *resp.ArrayData:
		b, ok := y.(*resp.ArrayData)
		if !ok || len(a.Data()) != len(b.Data()) {
			return false
		}
		for i := range a.Data() {
			if !c07Same(a.Data()[i], b.Data()[i]) {
				return false
			}
		}
		return true
	}
	return vfBytesEq(x.ToBytes(), y.ToBytes())
}

func c07Exec(m *Manager, args ...[]byte) resp.RedisData {
	return m.ExecCommand(context.Background(), args, nil)
}

func hExecMgr(m *Manager, args ...[]byte) []byte {
	r := m.ExecCommand(context.Background(), args, nil)
	if r == nil {
		return nil
	}
	return r.ToBytes()
}

// VF_C07_determinism: the same committed command applied on two replicas that start from the same
// keyspace but read their own clocks and iterate their own maps (what two processes do): replies and
// resulting keyspaces must be equal. Commands whose effect depends on apply-time state of the replica
// (wall clock, map iteration order) violate this; they are listed as known findings.
func c07Determinism(which int) {
	vfOpt("maporder", 1)
	a, b := hNewManager(1), hNewManager(1)
	seed := [][][]byte{
		{bs("sadd"), bs("s"), bs("x"), bs("y")},
		{bs("set"), bs("t"), bs("1")},
		{bs("hset"), bs("h"), bs("f"), bs("1"), bs("g"), bs("2")},
	}
	for _, c := range seed {
		hExecMgr(a, c...)
		hExecMgr(b, c...)
	}
	var cmd [][]byte
	var reads [][][]byte
	switch which {
	case 0:
		cmd = [][]byte{bs("append"), bs("t"), vfBytes("v", 0, 2)}
		reads = [][][]byte{{bs("get"), bs("t")}}
	case 1:
		cmd = [][]byte{bs("spop"), bs("s")}
		reads = [][][]byte{{bs("sismember"), bs("s"), bs("x")}, {bs("scard"), bs("s")}}
	case 2:
		cmd = [][]byte{bs("expire"), bs("t"), bs("100")}
		reads = [][][]byte{{bs("ttl"), bs("t")}}
	case 3:
		cmd = [][]byte{bs("xadd"), bs("st"), bs("*"), bs("f"), bs("v")}
		reads = [][][]byte{{bs("xrange"), bs("st"), bs("-"), bs("+")}}
	case 4:
		cmd = [][]byte{bs("hincrby"), bs("h"), bs("f"), bs("5")}
		reads = [][][]byte{{bs("hget"), bs("h"), bs("f")}}
	case 5:
		cmd = [][]byte{bs("smove"), bs("s"), bs("s2"), bs("x")}
		reads = [][][]byte{{bs("scard"), bs("s")}, {bs("scard"), bs("s2")}}
	}
	if which == 3 && vfIsSymbolic() {
		// stream IDs are rendered from the millisecond clock: keep the two apply instants symbolic but small
		// (the engine renders symbolic integers of at most four digits)
		ta := vfInt64("apply.a")
		vfAssume(vfAnd(ta >= 1, ta <= 9))
		vfFreezeClock(ta)
	}
	ra := c07Exec(a, cmd...)
	// the second replica applies the entry later: its clock has moved on
	if which == 3 && vfIsSymbolic() {
		tb := vfInt64("apply.b")
		vfAssume(vfAnd(tb >= 1, tb <= 9))
		vfFreezeClock(tb)
	}
	if !vfIsSymbolic() && (which == 2 || which == 3) {
		time.Sleep(1100 * time.Millisecond) // native replay: the replicas really apply at different instants
	}
	rb := c07Exec(b, cmd...)
	if !vfIsSymbolic() && which == 1 {
		// native replay: Go randomises map iteration; repeat on fresh replicas until the orders differ
		for try := 0; try < 64 && c07Same(ra, rb); try++ {
			a, b = hNewManager(1), hNewManager(1)
			for _, c := range seed {
				hExecMgr(a, c...)
				hExecMgr(b, c...)
			}
			ra, rb = c07Exec(a, cmd...), c07Exec(b, cmd...)
		}
	}
	vfAssert(c07Same(ra, rb), "replica-replies-differ")
	// read-backs are taken at one common instant on both replicas (a client comparing the nodes)
	vfClockNow()
	for _, rd := range reads {
		vfAssert(c07Same(c07Exec(a, rd...), c07Exec(b, rd...)), "replica-keyspaces-differ")
	}
}

func VF_C07_determinism_append()  { c07Determinism(0) }
func VF_C07_determinism_spop()    { c07Determinism(1) }
func VF_C07_determinism_expire()  { c07Determinism(2) }
func VF_C07_determinism_xadd()    { c07Determinism(3) }
func VF_C07_determinism_hincrby() { c07Determinism(4) }
func VF_C07_determinism_smove()   { c07Determinism(5) }

// ---------------------------------------------------------------------------
// VF_C08_restart_after_snapshot: a node applied an acknowledged write, took a snapshot (so the log up to
// that entry is compacted) and restarted: raftexample publishes the snapshot by sending nil on commitC
// and then only the entries after it. Reads after the restart must still see the write.
func VF_C08_restart_after_snapshot() {
	// life before the crash: the write is committed, applied and acknowledged
	n := c14Start()
	v := vfBytes("v", 1, 2)
	for _, b := range v {
		vfAssume(b < 0x80)
	}
	r := n.do(bs("set"), bs("k"), v)
	vfAssert(string(r) == "+OK\r\n", "write-acknowledged")
	// snapshot taken at this index; restart: a fresh process with an empty keyspace whose Raft layer
	// hands over "load the snapshot" (nil) followed by the entries after the snapshot (none here)
	fresh := c14Start()
	fresh.commitC <- nil
	g := fresh.do(bs("get"), bs("k"))
	want := append(append([]byte("$"+string(rune('0'+len(v)))+"\r\n"), v...), '\r', '\n')
	vfAssert(vfBytesEq(g, want), "acknowledged-write-lost-after-snapshot-restart")
}

var _ = resp.MakeIntData
var _ raftpb.ConfChangeI

// ---------------------------------------------------------------------------
// VF_C07_batching: how Raft groups committed entries into batches differs from node to node; the keyspace
// must not depend on it. Two proposals from connections on different databases are applied as one commit
// on one replica and as two commits on another.
func VF_C07_batching() {
	one, two := c14Start(), c14Start()
	v1, v0 := vfBytes("v1", 1, 1), vfBytes("v0", 1, 1)
	vfAssume(vfAnd(v1[0] < 0x80, v0[0] < 0x80))
	dbA, dbB := vfChoice("dbA", 2), vfChoice("dbB", 2)
	pA := &raftexample.RaftProposal{ID: "a", Args: [][]byte{bs("set"), bs("k"), v1}, DB: dbA}
	pB := &raftexample.RaftProposal{ID: "b", Args: [][]byte{bs("append"), bs("k"), v0}, DB: dbB}
	d1 := make(chan struct{}, 1)
	one.commitC <- &raftexample.RaftCommit{Data: []*raftexample.RaftProposal{pA, pB}, ApplyDoneC: d1}
	<-d1
	for _, p := range []*raftexample.RaftProposal{pA, pB} {
		d := make(chan struct{}, 1)
		two.commitC <- &raftexample.RaftCommit{Data: []*raftexample.RaftProposal{p}, ApplyDoneC: d}
		<-d
	}
	for db := 0; db < 2; db++ {
		x := one.mgr.DBs[db].ExecCommand(context.Background(), [][]byte{bs("get"), bs("k")}, nil)
		y := two.mgr.DBs[db].ExecCommand(context.Background(), [][]byte{bs("get"), bs("k")}, nil)
		vfAssert(c07Same(x, y), "keyspace-depends-on-commit-batching")
	}
}
