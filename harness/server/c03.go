//go:build verif

package server

// C03 (one reply per command, in order): n pipelined commands written to a connection as one byte
// stream (cut into reads at symbolic positions) produce exactly n writes, the i-th being exactly the
// encoded reply of the i-th command.

import (
	"context"
	"time"
)

type c03Step struct {
	args [][]byte
}

func VF_C03_handle_pipeline_quick()    { c03Pipeline(2) }
func VF_C03_handle_pipeline_thorough() { c03Pipeline(3) }

func c03Pipeline(maxN int) {
	m := hNewManager(2)
	twin := hNewManager(2)
	ctx := context.Background()
	v := vfBytes("v", 0, 2)
	pool := [][][]byte{
		{bs("set"), bs("k"), v},
		{bs("get"), bs("k")},
		{bs("set"), bs("k"), bs("w"), bs("nx")},
		{bs("lpush"), bs("k"), v},     // WRONGTYPE once k is a string
		{bs("nosuchcommand"), v},      // error
		{bs("rpush"), bs("l"), v, v},
		{bs("lrange"), bs("l"), bs("0"), bs("-1")},
		{bs("xrange"), bs("nostream"), bs("-"), bs("+")},
		{bs("select"), bs("1")},
		{bs("ping")},
	}
	n := 1 + vfChoice("n", maxN)
	var stream []byte
	var want [][]byte
	for i := 0; i < n; i++ {
		c := pool[vfChoice("cmd"+string(rune('0'+i)), len(pool))]
		stream = append(stream, vfEncode(c...)...)
		r := twin.ExecCommand(ctx, c, nil)
		if r == nil {
			want = append(want, []byte("-unknown error\r\n"))
		} else {
			want = append(want, r.ToBytes())
		}
	}
	conn := vfNewConn("P", false)
	cut := (len(stream) * vfChoice("cut", 3)) / 3 // fragmentation at every position is C02's subject
	vfSpawn(func() {
		if cut > 0 {
			conn.In <- stream[:cut]
		}
		conn.In <- stream[cut:]
		close(conn.In)
	})
	m.Handle(ctx, conn) // returns at EOF
	vfAssert(len(conn.Log) == n, "one-write-per-command")
	for i := 0; i < n && i < len(conn.Log); i++ {
		vfAssert(vfBytesEq(conn.Log[i], want[i]), "replies-in-request-order")
	}
	vfAssert(conn.Closed, "connection-closed-at-eof")
}

// VF_C03_write_timeout: a connection on which a write may time out after a partial write whenever a
// write deadline is armed (what net.Conn documents). The bytes the peer receives must stay a sequence of
// whole replies: after a reply was cut short nothing else may follow on that connection.
func VF_C03_write_timeout() {
	m := hNewManager(2)
	ctx := context.Background()
	conn := vfNewConn("P", false)
	conn.TimeoutsPossible = true
	stream := append(vfEncode(bs("set"), bs("k"), bs("value")), vfEncode(bs("get"), bs("k"))...)
	stream = append(stream, vfEncode(bs("ping"))...)
	vfSpawn(func() {
		conn.In <- stream
		close(conn.In)
	})
	m.Handle(ctx, conn)
	want := [][]byte{[]byte("+OK\r\n"), []byte("$5\r\nvalue\r\n"), []byte("+PONG\r\n")}
	// what arrived must be a prefix of the concatenated replies
	var all []byte
	for _, w := range want {
		all = append(all, w...)
	}
	vfAssert(len(conn.Raw) <= len(all), "more-bytes-than-replies")
	for i := range conn.Raw {
		if i < len(all) {
			vfAssert(conn.Raw[i] == all[i], "reply-stream-corrupted-after-a-timed-out-write")
		}
	}
}

// VF_C03_slow_reader: two connections; the first one's peer reads slowly, so its reply is still in the
// handler's hands (not yet copied to the socket) while the second connection's command is answered. Each
// client must receive the reply of its own command (reply buffers are not shared between connections).
func VF_C03_slow_reader() {
	m := hNewManager(2)
	ctx := context.Background()
	hExecMgr(m, bs("rpush"), bs("la"), bs("a1"), bs("a2"))
	hExecMgr(m, bs("rpush"), bs("lb"), bs("b1"), bs("b2"))
	a := vfNewConn("A", true)
	a.LateCopy, a.Gate, a.Release = true, make(chan struct{}), make(chan struct{})
	b := vfNewConn("B", true)
	vfSpawn(func() { m.Handle(ctx, a) })
	vfSpawn(func() { m.Handle(ctx, b) })
	a.In <- vfEncode(bs("lrange"), bs("la"), bs("0"), bs("-1"))
	<-a.Gate // A's reply is encoded and its Write is parked before the bytes are copied
	b.In <- vfEncode(bs("lrange"), bs("lb"), bs("0"), bs("-1"))
	rb := <-b.Out
	a.Release <- struct{}{}
	ra := <-a.Out
	vfAssert(string(rb) == "*2\r\n$2\r\nb1\r\n$2\r\nb2\r\n", "second-connection-reply")
	vfAssert(string(ra) == "*2\r\n$2\r\na1\r\n$2\r\na2\r\n", "slow-connection-received-another-connections-reply")
}

// VF_C03_pipeline_blocking_pop: commands pipelined behind a blocking pop (served at once, or after its
// first poll tick, or timing out) are answered after it, never before: the i-th write is the reply to
// the i-th command. Virtual time: the pop's ticker and timer fire when every thread is blocked.
func VF_C03_pipeline_blocking_pop() {
	vfOpt("timers", 40)
	m := hNewManager(2)
	ctx := context.Background()
	pop := "blpop"
	if vfChoice("pop", 2) == 1 {
		pop = "brpop"
	}
	var stream []byte
	var want []string
	if vfChoice("list-has-data", 2) == 1 {
		stream = append(stream, vfEncode(bs("rpush"), bs("q"), bs("job"))...)
		want = append(want, ":1\r\n")
		stream = append(stream, vfEncode(bs(pop), bs("q"), bs("1"))...)
		want = append(want, "*2\r\n$1\r\nq\r\n$3\r\njob\r\n")
	} else {
		stream = append(stream, vfEncode(bs(pop), bs("q"), bs("1"))...)
		want = append(want, "") // a nil reply of some shape after the timeout
	}
	stream = append(stream, vfEncode(bs("ping"))...)
	want = append(want, "+PONG\r\n")
	stream = append(stream, vfEncode(bs("get"), bs("nokey"))...)
	want = append(want, "$-1\r\n")
	conn := vfNewConn("P", false)
	vfSpawn(func() {
		conn.In <- stream
		if !vfIsSymbolic() {
			time.Sleep(1500 * time.Millisecond) // let a pop that waits for its timeout finish before EOF
		}
		close(conn.In)
	})
	m.Handle(ctx, conn)
	vfSettle()
	// one obligation (the two ways it fails - a write missing when the handler returns, a write out of
	// place - depend on the schedule only)
	ok := len(conn.Log) == len(want)
	for i := range want {
		if i < len(conn.Log) && want[i] != "" && string(conn.Log[i]) != want[i] {
			ok = false
		}
	}
	vfAssert(ok, "blocking-pop-pipeline-replies-in-request-order")
}
