//go:build verif

package server

// C03 (one reply per command, in order): n pipelined commands written to a connection as one byte
// stream (cut into reads at symbolic positions) produce exactly n writes, the i-th being exactly the
// encoded reply of the i-th command.

import (
	"context"
)

type c03Step struct {
	args [][]byte
}

func VF_C03_handle_pipeline_quick()    { c03Pipeline(2) }
func VF_C03_handle_pipeline_thorough() { c03Pipeline(3) }

func c03Pipeline(maxN int) {
	m := hNewManager(2)
	twin := hNewManager(2)
	ctx := context.Background()
	v := vfBytes("v", 0, 2)
	pool := [][][]byte{
		{bs("set"), bs("k"), v},
		{bs("get"), bs("k")},
		{bs("set"), bs("k"), bs("w"), bs("nx")},
		{bs("lpush"), bs("k"), v},     // WRONGTYPE once k is a string
		{bs("nosuchcommand"), v},      // error
		{bs("rpush"), bs("l"), v, v},
		{bs("lrange"), bs("l"), bs("0"), bs("-1")},
		{bs("xrange"), bs("nostream"), bs("-"), bs("+")},
		{bs("select"), bs("1")},
		{bs("ping")},
	}
	n := 1 + vfChoice("n", maxN)
	var stream []byte
	var want [][]byte
	for i := 0; i < n; i++ {
		c := pool[vfChoice("cmd"+string(rune('0'+i)), len(pool))]
		stream = append(stream, vfEncode(c...)...)
		r := twin.ExecCommand(ctx, c, nil)
		if r == nil {
			want = append(want, []byte("-unknown error\r\n"))
		} else {
			want = append(want, r.ToBytes())
		}
	}
	conn := vfNewConn("P", false)
	cut := (len(stream) * vfChoice("cut", 3)) / 3 // fragmentation at every position is C02's subject
	vfSpawn(func() {
		if cut > 0 {
			conn.In <- stream[:cut]
		}
		conn.In <- stream[cut:]
		close(conn.In)
	})
	m.Handle(ctx, conn) // returns at EOF
	vfAssert(len(conn.Log) == n, "one-write-per-command")
	for i := 0; i < n && i < len(conn.Log); i++ {
		vfAssert(vfBytesEq(conn.Log[i], want[i]), "replies-in-request-order")
	}
	vfAssert(conn.Closed, "connection-closed-at-eof")
}
