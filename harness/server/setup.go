//go:build verif

package server

import (
	"os"

	"github.com/innovationb1ue/RedisGO/config"
	"github.com/innovationb1ue/RedisGO/logger"
	"github.com/innovationb1ue/RedisGO/memdb"
)

func vfNativeSetup() {
	dir, _ := os.MkdirTemp("", "vflog")
	cfg := &config.Config{ShardNum: 2, LogDir: dir, LogLevel: "panic", Databases: 4}
	config.Configures = cfg
	_ = logger.SetUp(cfg)
	logger.Disable()
}

var hRegistered bool

func hRegister() {
	if hRegistered {
		return
	}
	hRegistered = true
	memdb.RegisterKeyCommands()
	memdb.RegisterStringCommands()
	memdb.RegisterListCommands()
	memdb.RegisterSetCommands()
	memdb.RegisterHashCommands()
	memdb.RegisterPubSubCommands()
	memdb.RegisterSortedSetCommands()
	memdb.RegisterStreamCommands()
	memdb.RegisterRaftCommand()
}

func hNewManager(ndb int) *Manager {
	hRegister()
	if config.Configures == nil {
		config.Configures = &config.Config{}
	}
	config.Configures.ShardNum = 2
	config.Configures.Databases = ndb
	return NewManager(config.Configures)
}

func bs(s string) []byte { return []byte(s) }
