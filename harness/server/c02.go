//go:build verif

package server

// C02 (handler side): after a protocol error on a connection nothing further from that connection is
// executed and the connection is closed.

import (
	"context"
)

func VF_C02_handle_stops_at_protocol_error() {
	m := hNewManager(1)
	ctx := context.Background()
	bad := [][]byte{
		[]byte("*2\r\n$3\r\nGET\r\n$1\r\nab\r\n"), // bulk declares 1 byte, carries 2
		[]byte("$x\r\n"),
		[]byte("*x\r\n"),
		[]byte("*1\r\n$3\r\nab\r\n\r\n"),
		[]byte("*-5\r\n"),
		[]byte("$5\r\nab\r\n\r\n\r"),
	}
	prefixOK := vfBool("valid_command_first")
	var stream []byte
	if prefixOK {
		stream = append(stream, vfEncode(bs("set"), bs("before"), bs("1"))...)
	}
	stream = append(stream, bad[vfChoice("bad", len(bad))]...)
	junk := vfBytes("junk", 0, 1)
	stream = append(stream, junk...)
	stream = append(stream, vfEncode(bs("set"), bs("injected"), bs("1"))...)
	conn := vfNewConn("P", false)
	vfSpawn(func() {
		conn.In <- stream
		close(conn.In)
	})
	m.Handle(ctx, conn)
	vfAssert(conn.Closed, "connection-closed-after-protocol-error")
	// what was executed: the commands before the malformed part, nothing after it
	probe := hNewManagerView(m)
	r := probe.ExecCommand(ctx, [][]byte{bs("exists"), bs("injected")}, nil)
	vfAssert(string(r.ToBytes()) == ":0\r\n", "nothing-executed-after-the-malformed-part")
	r = probe.ExecCommand(ctx, [][]byte{bs("exists"), bs("before")}, nil)
	if prefixOK {
		vfAssert(string(r.ToBytes()) == ":1\r\n", "commands-before-the-malformed-part-executed")
	}
}

func hNewManagerView(m *Manager) *Manager { return &Manager{CurrentDB: m.DBs[0], DBs: m.DBs} }

// "the offending connection gets an error or is closed": a complete top-level value that is not a command
// (text that is no RESP value at all, a simple string, an integer, a bulk string) must not be dropped
// silently - the client would wait for ever for an answer to what it believes was a request. The
// well-formed command behind it is still served.
func VF_C02_handle_non_command_request() {
	m := hNewManager(1)
	ctx := context.Background()
	var first []byte
	switch vfChoice("kind", 4) {
	case 0:
		b := vfByte("b") // an "inline" line: one byte that is no type marker and no line terminator
		vfAssume(b != '*' && b != '$' && b != '+' && b != '-' && b != ':' && b != '\r' && b != '\n')
		first = []byte{b, 'x', '\r', '\n'}
	case 1:
		first = []byte("+PING\r\n")
	case 2:
		first = []byte(":1\r\n")
	default:
		first = []byte("$4\r\nPING\r\n")
	}
	stream := append(first, vfEncode(bs("ping"))...)
	conn := vfNewConn("P", false)
	vfSpawn(func() {
		conn.In <- stream
		close(conn.In)
	})
	m.Handle(ctx, conn)
	if conn.Closed && len(conn.Log) == 0 {
		return // refused by closing the connection
	}
	vfAssert(len(conn.Log) >= 1 && len(conn.Log[0]) > 0 && conn.Log[0][0] == '-', "request-that-is-no-command-neither-answered-nor-refused")
	vfAssert(len(conn.Log) == 2 && string(conn.Log[1]) == "+PONG\r\n", "command-behind-a-non-command-request-served")
}
