//go:build verif

package server

// C14: cluster mode does not change what a command means.
// The real HandleCluster (parser goroutine, filter, proposal construction) and the real
// handleClusterCommits (apply loop, reply rendezvous) are run as threads; the harness plays the Raft
// layer: it takes each proposal from proposeC, passes it through a model of its JSON round trip
// (strings: invalid UTF-8 replaced by U+FFFD, []byte: unchanged - the encoding/json contract) and
// hands it back on commitC. The same commands go to a standalone Manager through Handle; replies
// and the keyspace read back afterwards must be identical.

import (
	"context"
	"unicode/utf8"

	"github.com/innovationb1ue/RedisGO/raftexample"
	"github.com/innovationb1ue/RedisGO/resp"
	"go.etcd.io/etcd/raft/v3/raftpb"
)

// c14JSONString: what a Go string looks like after json.Marshal + json.Unmarshal, for the byte alphabet
// the harness uses (ASCII and the byte 0xFF): ASCII survives, a byte that is not valid UTF-8 comes
// back as U+FFFD.
func c14JSONString(s string) string {
	out := make([]byte, 0, len(s))
	for i := 0; i < len(s); i++ {
		c := s[i]
		if c < utf8.RuneSelf {
			out = append(out, c)
		} else {
			out = append(out, 0xEF, 0xBF, 0xBD)
		}
	}
	return string(out)
}

// c14Bytes: symbolic bytes over the alphabet {0x00..0x7F, 0xFF}
func c14Bytes(name string, lo, hi int) []byte {
	b := vfBytes(name, lo, hi)
	for _, c := range b {
		vfAssume(vfOr(c < 0x80, c == 0xFF))
	}
	return b
}

func c14JSON(p *raftexample.RaftProposal) *raftexample.RaftProposal {
	q := &raftexample.RaftProposal{Data: c14JSONString(p.Data), ID: c14JSONString(p.ID), DB: p.DB}
	for _, a := range p.Args {
		if a == nil {
			q.Args = append(q.Args, nil) // JSON null
			continue
		}
		c := make([]byte, len(a)) // base64 text: an empty value comes back empty, not nil
		copy(c, a)
		q.Args = append(q.Args, c)
	}
	if p.Args != nil && q.Args == nil {
		q.Args = [][]byte{}
	}
	return q
}

type c14Cluster struct {
	mgr      *Manager
	conn     *vfConn
	proposeC chan *raftexample.RaftProposal
	commitC  chan *raftexample.RaftCommit
	confC    chan raftpb.ConfChangeI
	callback map[string]chan resp.RedisData
	filter   *middleware
}

func c14Start() *c14Cluster {
	c := &c14Cluster{mgr: hNewManager(2)}
	c.proposeC = make(chan *raftexample.RaftProposal)
	c.confC = make(chan raftpb.ConfChangeI)
	c.commitC = make(chan *raftexample.RaftCommit)
	errorC := make(chan error)
	c.callback = make(map[string]chan resp.RedisData)
	c.filter = newMiddleware()
	c.filter.Add(ClusterCmdFilter)
	ctx := context.Background()
	vfSpawn(func() { handleClusterCommits(ctx, c.commitC, c.confC, c.mgr, c.callback, errorC) })
	c.conn = c.connect("C")
	return c
}

// connect opens one more client connection to the same cluster node.
func (c *c14Cluster) connect(name string) *vfConn {
	conn := vfNewConn(name, true)
	vfSpawn(func() { c.mgr.HandleCluster(context.Background(), conn, c.proposeC, c.confC, c.callback, c.filter) })
	return conn
}

// do sends one command through the cluster path and returns the reply bytes.
func (c *c14Cluster) do(args ...[]byte) []byte { return c.doOn(c.conn, args...) }

func (c *c14Cluster) doOn(conn *vfConn, args ...[]byte) []byte {
	conn.In <- vfEncode(args...)
	select {
	case p := <-c.proposeC:
		done := make(chan struct{}, 1)
		c.commitC <- &raftexample.RaftCommit{Data: []*raftexample.RaftProposal{c14JSON(p)}, ApplyDoneC: done}
		return <-conn.Out
	case r := <-conn.Out:
		return r // answered without a proposal (filtered, rconf, select)
	}
}

type c14Alone struct {
	mgr  *Manager
	conn *vfConn
}

func c14StartAlone() *c14Alone {
	a := &c14Alone{mgr: hNewManager(2), conn: vfNewConn("S", true)}
	vfSpawn(func() { a.mgr.Handle(context.Background(), a.conn) })
	return a
}

func (a *c14Alone) do(args ...[]byte) []byte {
	a.conn.In <- vfEncode(args...)
	return <-a.conn.Out
}

func c14Same(x, y []byte) bool { return vfBytesEq(x, y) }

// one symbolic command, then a read-back of the key through both paths
func c14Equiv(which int) {
	cl := c14Start()
	al := c14StartAlone()
	vfOpt("hashuf", 1)
	k := c14Bytes("key", 1, 2)
	v := c14Bytes("val", 0, 2)
	var cmd [][]byte
	var reads [][][]byte
	switch which {
	case 0:
		cmd = [][]byte{bs("SET"), k, v}
		reads = [][][]byte{{bs("get"), k}}
	case 1:
		cmd = [][]byte{bs("rpush"), k, v, bs("x y")}
		reads = [][][]byte{{bs("lrange"), k, bs("0"), bs("-1")}}
	case 2:
		cmd = [][]byte{bs("hset"), k, v, v}
		reads = [][][]byte{{bs("hget"), k, v}, {bs("hlen"), k}}
	case 3:
		cmd = [][]byte{bs("sadd"), k, v, bs("")}
		reads = [][][]byte{{bs("scard"), k}, {bs("sismember"), k, v}}
	case 4:
		cmd = [][]byte{bs("append"), k, v}
		reads = [][][]byte{{bs("get"), k}, {bs("strlen"), k}}
	case 5:
		cmd = [][]byte{bs("mset"), k, v, bs("other"), bs("w")}
		reads = [][][]byte{{bs("get"), k}, {bs("get"), bs("other")}}
	}
	r1 := cl.do(cmd...)
	r2 := al.do(cmd...)
	vfAssert(c14Same(r1, r2), "cluster-reply-equals-standalone-reply")
	for _, rd := range reads {
		x := cl.do(rd...)
		y := al.do(rd...)
		vfAssert(c14Same(x, y), "cluster-state-equals-standalone-state")
	}
	vfAssert(vfBytesEq(cl.do(bs("exists"), k), al.do(bs("exists"), k)), "cluster-exists-equals-standalone")
}

func VF_C14_equiv_set()    { c14Equiv(0) }
func VF_C14_equiv_rpush()  { c14Equiv(1) }
func VF_C14_equiv_hset()   { c14Equiv(2) }
func VF_C14_equiv_sadd()   { c14Equiv(3) }
func VF_C14_equiv_append() { c14Equiv(4) }
func VF_C14_equiv_mset()   { c14Equiv(5) }

// the argument vector handed to the executor is byte-for-byte the one the client sent
func VF_C14_transport() {
	cl := c14Start()
	n := 1 + vfChoice("nargs", 3)
	args := [][]byte{bs("echo-like-unknown-command")}
	for i := 0; i < n; i++ {
		args = append(args, c14Bytes("a"+string(rune('0'+i)), 0, 2))
	}
	cl.conn.In <- vfEncode(args...)
	p := <-cl.proposeC
	q := c14JSON(p)
	vfAssert(q.Args != nil && len(q.Args) == len(args), "proposal-carries-every-argument")
	for i := range args {
		vfAssert(vfBytesEq(q.Args[i], args[i]), "proposal-argument-bytes-preserved")
	}
}

// the filter rejects exactly PUBLISH/SUBSCRIBE in any letter case and never panics
func VF_C14_filter() {
	name := vfBytes("name", 0, 3)
	var word []byte
	switch vfChoice("which", 3) {
	case 0:
		word = vfCase("w", "publish")
	case 1:
		word = vfCase("w", "subscribe")
	default:
		word = name
	}
	out, err := ClusterCmdFilter([][]byte{word, bs("x")})
	lower := make([]byte, len(word))
	for i, c := range word {
		if c >= 'A' && c <= 'Z' {
			c += 32
		}
		lower[i] = c
	}
	ps := string(lower) == "publish" || string(lower) == "subscribe"
	if ps {
		vfAssert(err != nil && out == nil, "filter-rejects-pubsub")
	} else {
		vfAssert(err == nil && len(out) == 2, "filter-passes-other-commands")
	}
}

// an empty command array must not take the connection handler down
func VF_C14_empty_command() {
	cl := c14Start()
	cl.conn.In <- []byte("*0\r\n")
	r := cl.do(bs("ping"))
	vfAssert(len(r) > 0, "handler-alive-after-empty-command")
}

// SELECT in cluster mode: the selection still belongs to the connection
func VF_C14_select() {
	cl := c14Start()
	al := c14StartAlone()
	c2 := cl.connect("C2")
	a2 := vfNewConn("S2", true)
	vfSpawn(func() { al.mgr.Handle(context.Background(), a2) })
	do2 := func(args ...[]byte) []byte {
		a2.In <- vfEncode(args...)
		return <-a2.Out
	}
	steps := [][][]byte{
		{bs("select"), bs("1")},
		{bs("set"), bs("k"), bs("v")},
		{bs("get"), bs("k")},
	}
	for _, st := range steps {
		vfAssert(c14Same(cl.do(st...), al.do(st...)), "cluster-select-equals-standalone")
	}
	// the second connection is still in database 0
	vfAssert(c14Same(cl.doOn(c2, bs("get"), bs("k")), do2(bs("get"), bs("k"))), "cluster-select-is-per-connection")
	vfAssert(c14Same(cl.doOn(c2, bs("set"), bs("k"), bs("w")), do2(bs("set"), bs("k"), bs("w"))), "cluster-select-is-per-connection-write")
	vfAssert(c14Same(cl.do(bs("get"), bs("k")), al.do(bs("get"), bs("k"))), "cluster-select-first-connection-unaffected")
	vfAssert(c14Same(cl.do(bs("select"), bs("0")), al.do(bs("select"), bs("0"))), "cluster-select-back")
	vfAssert(c14Same(cl.do(bs("get"), bs("k")), al.do(bs("get"), bs("k"))), "cluster-select-back-read")
	vfAssert(c14Same(cl.do(bs("select"), bs("7")), al.do(bs("select"), bs("7"))), "cluster-select-out-of-range")
}

// ---------------------------------------------------------------------------
// c14CommitDatabase: every committed entry is applied to the database recorded in it, whatever the entries
// before it (in the same or in an earlier commit) named. Three APPENDs on one key with symbolic databases
// are delivered in each of the four possible groupings into commits; the reference applies each command
// directly to the database it names.
func c14CommitDatabase() {
	cl := c14Start()
	ref := hNewManager(2)
	ctx := context.Background()
	var ps []*raftexample.RaftProposal
	for i := 0; i < 3; i++ {
		db := vfChoice("db"+string(rune('0'+i)), 2)
		p := &raftexample.RaftProposal{ID: "p" + string(rune('0'+i)), Args: [][]byte{bs("append"), bs("k"), {byte('a' + i)}}, DB: db}
		ps = append(ps, p)
		ref.DBs[db].ExecCommand(ctx, p.Args, nil)
	}
	var groups [][]*raftexample.RaftProposal
	switch vfChoice("grouping", 4) {
	case 0:
		groups = [][]*raftexample.RaftProposal{ps}
	case 1:
		groups = [][]*raftexample.RaftProposal{ps[:1], ps[1:]}
	case 2:
		groups = [][]*raftexample.RaftProposal{ps[:2], ps[2:]}
	default:
		groups = [][]*raftexample.RaftProposal{ps[:1], ps[1:2], ps[2:]}
	}
	for _, g := range groups {
		d := make(chan struct{}, 1)
		cl.commitC <- &raftexample.RaftCommit{Data: g, ApplyDoneC: d}
		<-d
	}
	for db := 0; db < 2; db++ {
		x := cl.mgr.DBs[db].ExecCommand(ctx, [][]byte{bs("get"), bs("k")}, nil)
		y := ref.DBs[db].ExecCommand(ctx, [][]byte{bs("get"), bs("k")}, nil)
		vfAssert(c14Same(x.ToBytes(), y.ToBytes()), "committed-entry-applied-to-its-own-database")
	}
}

func VF_C14_commit_database() { c14CommitDatabase() }
func VF_C20_commit_database() { c14CommitDatabase() }
func VF_C14_batching()        { VF_C07_batching() }

// VF_C14_concurrent_proposals: two connections have a command each on its way to Raft at the same time
// (both handlers are parked on proposeC before the harness, playing Raft, takes either proposal). Each
// proposal must still carry exactly the arguments its own connection sent.
func VF_C14_concurrent_proposals() {
	cl := c14Start()
	c2 := cl.connect("C2")
	va, vb := vfBytes("va", 1, 1), vfBytes("vb", 1, 1)
	vfAssume(vfAnd(va[0] < 0x80, vb[0] < 0x80))
	cmdA := [][]byte{bs("set"), bs("ka"), va}
	cmdB := [][]byte{bs("rpush"), bs("kb"), vb}
	cl.conn.In <- vfEncode(cmdA...)
	c2.In <- vfEncode(cmdB...)
	vfSettle()
	seenA, seenB := false, false
	var taken []*raftexample.RaftProposal
	for i := 0; i < 2; i++ {
		taken = append(taken, <-cl.proposeC)
	}
	for _, p := range taken {
		q := c14JSON(p)
		want := cmdB
		if len(q.Args) > 0 && string(q.Args[0]) == "set" {
			want = cmdA
			seenA = true
		} else {
			seenB = true
		}
		vfAssert(len(q.Args) == len(want), "concurrent-proposal-argument-count")
		for j := range want {
			vfAssert(vfBytesEq(q.Args[j], want[j]), "concurrent-proposal-arguments-are-the-senders")
		}
		d := make(chan struct{}, 1)
		cl.commitC <- &raftexample.RaftCommit{Data: []*raftexample.RaftProposal{q}, ApplyDoneC: d}
	}
	vfAssert(seenA && seenB, "concurrent-proposals-both-arrive")
	<-cl.conn.Out
	<-c2.Out
}
