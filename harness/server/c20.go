//go:build verif

package server

// C20: numbered databases are isolated and the selection belongs to the connection.

import (
	"context"
	"strconv"

	"github.com/innovationb1ue/RedisGO/resp"
)

func replyText(r resp.RedisData) (kind byte, text []byte) {
	if r == nil {
		return '0', nil
	}
	b := r.ToBytes()
	if len(b) == 0 {
		return '0', nil
	}
	return b[0], b
}

func isOK(r resp.RedisData) bool {
	k, b := replyText(r)
	return k == '+' && string(b) == "+OK\r\n"
}

func isErr(r resp.RedisData) bool {
	k, _ := replyText(r)
	return k == '-'
}

func dbIndex(m *Manager) int {
	for i, d := range m.DBs {
		if d == m.CurrentDB {
			return i
		}
	}
	return -1
}

// SELECT accepts exactly the integers 0..n-1 and changes nothing otherwise.
func VF_C20_select_numeric() {
	n := 1 + vfChoice("databases", 4)
	m := hNewManager(n)
	ctx := context.Background()
	// start from any selected database
	start := vfChoice("start", n)
	vfAssert(isOK(m.ExecCommand(ctx, [][]byte{bs("select"), bs(strconv.Itoa(start))}, nil)), "select-canonical-index-accepted")
	vfAssert(dbIndex(m) == start, "select-selects-the-database")
	i := vfInt64("index")
	r := m.ExecCommand(ctx, [][]byte{vfCase("cmd", "select"), vfNumStr(i)}, nil)
	if i >= 0 && i < int64(n) {
		vfAssert(isOK(r), "select-in-range-accepted")
		vfAssert(dbIndex(m) == int(i), "select-selects-the-database")
	} else {
		vfAssert(isErr(r), "select-out-of-range-rejected")
		vfAssert(dbIndex(m) == start, "select-rejected-selection-unchanged")
	}
}

// byte-level argument: accepted only if strconv reads it as an in-range integer
func VF_C20_select_bytes() {
	n := 1 + vfChoice("databases", 3)
	m := hNewManager(n)
	ctx := context.Background()
	arg := vfBytes("arg", 0, 3)
	r := m.ExecCommand(ctx, [][]byte{bs("SELECT"), arg}, nil)
	v, err := strconv.Atoi(string(arg))
	if err == nil && v >= 0 && v < n {
		vfAssert(isOK(r), "select-bytes-in-range-accepted")
		vfAssert(dbIndex(m) == v, "select-bytes-selects-the-database")
	} else {
		vfAssert(isErr(r), "select-bytes-rejected")
		vfAssert(dbIndex(m) == 0, "select-bytes-rejected-selection-unchanged")
	}
}

func VF_C20_select_arity() {
	m := hNewManager(2)
	ctx := context.Background()
	na := vfChoice("nargs", 4)
	if na == 1 {
		return
	}
	args := [][]byte{bs("select")}
	for i := 0; i < na; i++ {
		args = append(args, bs("1"))
	}
	vfAssert(isErr(m.ExecCommand(ctx, args, nil)), "select-wrong-arity-rejected")
	vfAssert(dbIndex(m) == 0, "select-wrong-arity-selection-unchanged")
}

// A key written in database i is visible in database j iff i == j, for every data type's write/read.
func VF_C20_isolation() {
	n := 2 + vfChoice("databases", 2)
	m := hNewManager(n)
	ctx := context.Background()
	i, j := vfChoice("i", n), vfChoice("j", n)
	sel := func(k int) {
		vfAssert(isOK(m.ExecCommand(ctx, [][]byte{bs("select"), bs(strconv.Itoa(k))}, nil)), "isolation-select")
	}
	v := vfBytes("v", 1, 1)
	sel(i)
	var read [][]byte
	switch vfChoice("type", 6) {
	case 0:
		m.ExecCommand(ctx, [][]byte{bs("set"), bs("k"), v}, nil)
		read = [][]byte{bs("get"), bs("k")}
	case 1:
		m.ExecCommand(ctx, [][]byte{bs("rpush"), bs("k"), v}, nil)
		read = [][]byte{bs("lindex"), bs("k"), bs("0")}
	case 2:
		m.ExecCommand(ctx, [][]byte{bs("sadd"), bs("k"), v}, nil)
		read = [][]byte{bs("sismember"), bs("k"), v}
	case 3:
		m.ExecCommand(ctx, [][]byte{bs("hset"), bs("k"), bs("f"), v}, nil)
		read = [][]byte{bs("hget"), bs("k"), bs("f")}
	case 4:
		m.ExecCommand(ctx, [][]byte{bs("zadd"), bs("k"), bs("1"), bs("m")}, nil)
		read = [][]byte{bs("zrank"), bs("k"), bs("m")}
	default:
		m.ExecCommand(ctx, [][]byte{bs("xadd"), bs("k"), bs("1-1"), bs("f"), v}, nil)
		read = [][]byte{bs("exists"), bs("k")}
	}
	sel(j)
	ex := m.ExecCommand(ctx, [][]byte{bs("exists"), bs("k")}, nil)
	_, eb := replyText(ex)
	if i == j {
		vfAssert(string(eb) == ":1\r\n", "isolation-visible-in-own-database")
	} else {
		vfAssert(string(eb) == ":0\r\n", "isolation-invisible-in-other-database")
		r := m.ExecCommand(ctx, read, nil)
		_, rb := replyText(r)
		s := string(rb)
		vfAssert(s == "$-1\r\n" || s == ":0\r\n" || s == "*-1\r\n" || s == "*0\r\n", "isolation-read-sees-nothing")
	}
	// structural: the databases share no storage objects
	for a := 0; a < n; a++ {
		for b := a + 1; b < n; b++ {
			vfAssert(m.DBs[a] != m.DBs[b], "isolation-distinct-databases")
		}
	}
}

// Two connections driven through the real Handle, interleaved at command granularity in every order:
// the selected database is per-connection state.
type c20Client struct {
	conn *vfConn
	db   int // model: this connection's selected database
}

func (c *c20Client) do(args ...[]byte) []byte {
	c.conn.In <- vfEncode(args...)
	return <-c.conn.Out
}

func VF_C20_perconn() {
	m := hNewManager(3)
	ctx := context.Background()
	a := &c20Client{conn: vfNewConn("A", true)}
	b := &c20Client{conn: vfNewConn("B", true)}
	vfSpawn(func() { m.Handle(ctx, a.conn) })
	vfSpawn(func() { m.Handle(ctx, b.conn) })
	// model keyspace: value of key "k" per database ("" = missing)
	var model [3][]byte
	var has [3]bool
	steps := 4
	for s := 0; s < steps; s++ {
		c := a
		if vfChoice("who"+string(rune('0'+s)), 2) == 1 {
			c = b
		}
		switch vfChoice("op"+string(rune('0'+s)), 3) {
		case 0:
			k := vfChoice("db"+string(rune('0'+s)), 3)
			r := c.do(bs("select"), bs(strconv.Itoa(k)))
			vfAssert(string(r) == "+OK\r\n", "perconn-select-reply")
			c.db = k
		case 1:
			v := []byte{byte('a' + s)}
			r := c.do(bs("set"), bs("k"), v)
			vfAssert(string(r) == "+OK\r\n", "perconn-set-reply")
			model[c.db], has[c.db] = v, true
		default:
			r := c.do(bs("get"), bs("k"))
			if has[c.db] {
				vfAssert(string(r) == "$1\r\n"+string(model[c.db])+"\r\n", "perconn-get-sees-own-database")
			} else {
				vfAssert(string(r) == "$-1\r\n", "perconn-get-sees-own-database-empty")
			}
		}
	}
	close(a.conn.In)
	close(b.conn.In)
}

// VF_C20_deadline_isolation: a deadline belongs to the key of one database. The same key name exists in two
// databases, one copy has a deadline: TTL / PERSIST / SET / DEL on the other copy neither see nor touch it.
func VF_C20_deadline_isolation() {
	vfFreezeClock(5000)
	m := hNewManager(2)
	ctx := context.Background()
	i := vfChoice("i", 2)
	j := 1 - i
	do := func(args ...string) string {
		var a [][]byte
		for _, s := range args {
			a = append(a, bs(s))
		}
		_, b := replyText(m.ExecCommand(ctx, a, nil))
		return string(b)
	}
	do("select", strconv.Itoa(j))
	do("set", "k", "other")
	do("select", strconv.Itoa(i))
	do("set", "k", "v")
	vfAssert(do("expire", "k", "1000") == ":1\r\n", "deadline-isolation-expire")
	do("select", strconv.Itoa(j))
	vfAssert(do("ttl", "k") == ":-1\r\n", "deadline-of-another-database-visible")
	switch vfChoice("op", 4) {
	case 0:
		vfAssert(do("persist", "k") == ":0\r\n", "persist-removed-another-databases-deadline")
	case 1:
		do("set", "k", "w")
	case 2:
		do("del", "k")
	default:
		vfAssert(do("expire", "k", "5000") == ":1\r\n", "deadline-isolation-expire-other")
	}
	do("select", strconv.Itoa(i))
	t := do("ttl", "k")
	vfAssert(t != ":-1\r\n" && t != ":-2\r\n", "deadline-lost-through-another-database")
	if vfIsSymbolic() {
		vfAssert(t == ":1000\r\n", "deadline-changed-through-another-database") // the clock is frozen
	} else {
		n, err := strconv.Atoi(t[1 : len(t)-2])
		vfAssert(err == nil && n <= 1000 && n >= 900, "deadline-changed-through-another-database")
	}
	vfAssert(do("get", "k") == "$1\r\nv\r\n", "deadline-isolation-value")
}
