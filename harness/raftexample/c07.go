//go:build verif

package raftexample

// C07 / C08 (raftexample glue): entriesToApply / publishEntries hand every committed entry to the state
// machine exactly once and in order; one Ready is handled in the order persist -> send -> publish ->
// advance with exactly the Ready's hard state and entries persisted; snapshot trigger and compaction
// arithmetic; what replayWAL rebuilds. The raft.Node, the WAL object and the transport are replaced by
// event-recording stubs (their own behaviour is C15 / C16).

import (
	"context"
	"os"
	"path/filepath"

	"go.uber.org/zap"

	"go.etcd.io/etcd/raft/v3"
	"go.etcd.io/etcd/raft/v3/raftpb"
	"go.etcd.io/etcd/server/v3/etcdserver/api/rafthttp"
	"go.etcd.io/etcd/server/v3/etcdserver/api/snap"
	"go.etcd.io/etcd/server/v3/storage/wal"
	"go.etcd.io/etcd/server/v3/storage/wal/walpb"
)

// Native replays cannot intercept methods of concrete types, so they run against real objects: a real
// WAL / snapshot directory under a temporary directory, inspected through the public API.
var c07Dir string

func c07NativeWAL() *wal.WAL {
	c07Dir, _ = os.MkdirTemp("", "vfraft")
	w, err := wal.Create(zap.NewNop(), filepath.Join(c07Dir, "wal"), nil)
	if err != nil {
		panic(err)
	}
	return w
}

// c07Persisted: what is durably in the WAL right now (natively read back from disk; under gosx what the
// Save stub recorded)
func c07Persisted() (raftpb.HardState, int, bool) {
	if vfIsSymbolic() {
		return c07Saved, c07SavedEnts, c07Index("save") >= 0
	}
	r, err := wal.OpenForRead(zap.NewNop(), filepath.Join(c07Dir, "wal"), walpb.Snapshot{})
	if err != nil {
		return raftpb.HardState{}, 0, false
	}
	defer r.Close()
	_, st, ents, _ := r.ReadAll()
	return st, len(ents), !raft.IsEmptyHardState(st) || len(ents) > 0
}

var c07Events []string

func c07Event(s string) { c07Events = append(c07Events, s) }

func c07Index(name string) int {
	for i, e := range c07Events {
		if e == name {
			return i
		}
	}
	return -1
}

// raft.Node stub
type c07Node struct {
	readyC chan raft.Ready
	cs     raftpb.ConfState
}

func (n *c07Node) Tick()                                                          {}
func (n *c07Node) Campaign(ctx context.Context) error                            { return nil }
func (n *c07Node) Propose(ctx context.Context, data []byte) error                { c07Event("propose"); return nil }
func (n *c07Node) ProposeConfChange(ctx context.Context, cc raftpb.ConfChangeI) error { return nil }
func (n *c07Node) Step(ctx context.Context, msg raftpb.Message) error            { return nil }
func (n *c07Node) Ready() <-chan raft.Ready                                       { return n.readyC }
func (n *c07Node) Advance()                                                       { c07Event("advance") }
func (n *c07Node) ApplyConfChange(cc raftpb.ConfChangeI) *raftpb.ConfState {
	c07Event("applyconf")
	return &n.cs
}
func (n *c07Node) TransferLeadership(ctx context.Context, lead, transferee uint64) {}
func (n *c07Node) ReadIndex(ctx context.Context, rctx []byte) error               { return nil }
func (n *c07Node) Status() raft.Status                                            { return raft.Status{} }
func (n *c07Node) ReportUnreachable(id uint64)                                    {}
func (n *c07Node) ReportSnapshot(id uint64, status raft.SnapshotStatus)           {}
func (n *c07Node) Stop()                                                          { c07Event("stop") }

// c07Payload: the entry payload of proposal b (natively real JSON, under gosx the one-byte contract form)
func c07Payload(b byte) []byte {
	if vfIsSymbolic() {
		return []byte{b}
	}
	return (&RaftProposal{ID: string([]byte{b})}).ToBytes()
}

// proposals are identified by one payload byte; the JSON codec is replaced by this contract
// Like encoding/json it only assigns the fields present in the text: RaftProposal marshals DB and Args with
// omitempty, so a proposal on database 0 / without Args leaves those fields of the target untouched.
func c07Unmarshal(data []byte, v interface{}) error {
	p := v.(*RaftProposal)
	p.ID = string(data)
	if f, ok := c07Fields[string(data)]; ok {
		if f.DB != 0 {
			p.DB = f.DB
		}
		if f.Args != nil {
			p.Args = f.Args
		}
	}
	return nil
}

var c07Fields = map[string]*RaftProposal{}

// ---------------------------------------------------------------------------
// VF_C07_entries_to_apply: exactly the entries above appliedIndex, in order, for every index value.
func VF_C07_entries_to_apply() {
	applied := vfUint64("applied")
	first := vfUint64("first")
	vfAssume(vfAnd(first >= 1, first < 1<<62))
	vfAssume(applied < 1<<62)
	n := vfChoice("n", 4)
	// Raft hands over committed entries contiguous with what was applied
	vfAssume(first <= applied+1)
	var ents []raftpb.Entry
	for i := 0; i < n; i++ {
		ents = append(ents, raftpb.Entry{Index: first + uint64(i), Data: []byte{byte('a' + i)}})
	}
	rc := &RaftNode{appliedIndex: applied}
	got := rc.entriesToApply(ents)
	k := 0
	for _, e := range ents {
		if e.Index > applied {
			vfAssert(k < len(got), "committed-entry-dropped")
			if k < len(got) {
				vfAssert(vfAnd(got[k].Index == e.Index, got[k].Data[0] == e.Data[0]), "committed-entry-out-of-order")
			}
			k++
		}
	}
	vfAssert(len(got) == k, "applied-entry-handed-over-again")
}

// ---------------------------------------------------------------------------
// VF_C07_publish: publishEntries delivers one proposal per non-empty normal entry, in log order, in one
// commit, and moves appliedIndex to the last entry.
func VF_C07_publish() { c07Publish() }

// the same obligation under C14: what reaches the executor on the cluster path is the proposal as it was
// made (database, argument vector), whatever else is in the same committed batch
func VF_C14_publish_fields() { c07Publish() }

func c07Publish() {
	vfStubFunc("encoding/json.Unmarshal", c07Unmarshal)
	c07Events = nil
	c07Fields = map[string]*RaftProposal{}
	commitC := make(chan *RaftCommit, 1)
	node := &c07Node{}
	rc := &RaftNode{commitC: commitC, stopc: make(chan struct{}), Node: node, transport: &rafthttp.Transport{}, id: 1}
	first := vfUint64("first")
	vfAssume(vfAnd(first >= 1, first < 1<<62))
	rc.appliedIndex = first - 1
	n := 1 + vfChoice("n", 3)
	var ents []raftpb.Entry
	var want []byte
	for i := 0; i < n; i++ {
		e := raftpb.Entry{Index: first + uint64(i)}
		switch vfChoice("kind", 3) {
		case 0:
			e.Data = c07Payload(byte('a' + i))
			want = append(want, byte('a'+i))
			f := &RaftProposal{DB: 3 * vfChoice("db", 2)}
			if vfChoice("args", 2) == 1 {
				f.Args = [][]byte{{byte('A' + i)}}
			}
			c07Fields[string([]byte{byte('a' + i)})] = f
			if !vfIsSymbolic() {
				e.Data = (&RaftProposal{ID: string([]byte{byte('a' + i)}), DB: f.DB, Args: f.Args}).ToBytes()
			}
		case 1: // the empty entry a new leader appends
		case 2:
			e.Type = raftpb.EntryConfChange
			cc := raftpb.ConfChange{Type: raftpb.ConfChangeUpdateNode, NodeID: 2}
			e.Data, _ = cc.Marshal()
		}
		ents = append(ents, e)
	}
	done, ok := rc.publishEntries(ents)
	vfAssert(ok, "publish-refused")
	vfAssert(rc.appliedIndex == first+uint64(n)-1, "applied-index-not-last-entry")
	if len(want) == 0 {
		vfAssert(len(commitC) == 0 && done == nil, "commit-without-proposals")
		return
	}
	vfAssert(len(commitC) == 1, "no-commit-for-proposals")
	c := <-commitC
	vfAssert(len(c.Data) == len(want), "proposal-dropped-or-duplicated")
	for i := range want {
		if i < len(c.Data) {
			vfAssert(c.Data[i].ID == string([]byte{want[i]}), "proposals-out-of-log-order")
			f := c07Fields[string([]byte{want[i]})]
			vfAssert(c.Data[i].DB == f.DB, "proposal-database-changed")
			vfAssert((c.Data[i].Args == nil) == (f.Args == nil), "proposal-arguments-changed")
			if f.Args != nil && c.Data[i].Args != nil {
				vfAssert(len(c.Data[i].Args) == 1 && c.Data[i].Args[0][0] == f.Args[0][0], "proposal-arguments-changed")
			}
		}
	}
	vfAssert(done != nil, "no-apply-done-channel")
}

// ---------------------------------------------------------------------------
// VF_C07_ready_order (also C08 persist-before-acknowledge): serveChannels handles one Ready.
func c07Save(w *wal.WAL, st raftpb.HardState, ents []raftpb.Entry) error {
	c07Event("save")
	c07Saved, c07SavedEnts = st, len(ents)
	return nil
}
func c07WalClose(w *wal.WAL) error                           { return nil }
func c07Send(t *rafthttp.Transport, msgs []raftpb.Message)   { c07Event("send"); c07Sent = len(msgs) }
func c07TransportStop(t *rafthttp.Transport)                 {}

var c07Saved raftpb.HardState
var c07SavedEnts, c07Sent int

func VF_C07_ready_order() { c07ReadyOrder() }

// the same obligation under C08: nothing is published (and so acknowledged) before it is in the WAL
func VF_C08_persist_before_publish() { c07ReadyOrder() }

// c07Probe: the first bytes of the (single) WAL segment file, read directly: a cheap way for the native
// replay to see whether a Save has reached the file since the last probe
func c07Probe() string {
	ents, _ := os.ReadDir(filepath.Join(c07Dir, "wal"))
	for _, e := range ents {
		f, err := os.Open(filepath.Join(c07Dir, "wal", e.Name()))
		if err != nil {
			continue
		}
		buf := make([]byte, 8192)
		n, _ := f.ReadAt(buf, 0)
		f.Close()
		return string(buf[:n])
	}
	return ""
}

func c07WALObject() *wal.WAL {
	if vfIsSymbolic() {
		return &wal.WAL{}
	}
	return c07NativeWAL()
}

func c07ReadyOrder() {
	// every order in which the Ready loop and the consumer of commitC proceed after a hand-over is
	// explored (scheduler choices at blocking points)
	vfOpt("concurrent", 1)
	vfOpt("preempt", 1)
	vfStubFunc("encoding/json.Unmarshal", c07Unmarshal)
	vfStubFunc("(*go.etcd.io/etcd/server/v3/storage/wal.WAL).Save", c07Save)
	vfStubFunc("(*go.etcd.io/etcd/server/v3/storage/wal.WAL).Close", c07WalClose)
	vfStubFunc("(*go.etcd.io/etcd/server/v3/etcdserver/api/rafthttp.Transport).Send", c07Send)
	vfStubFunc("(*go.etcd.io/etcd/server/v3/etcdserver/api/rafthttp.Transport).Stop", c07TransportStop)
	c07Events = nil
	c07SavedEnts, c07Sent = -1, -1
	commitC := make(chan *RaftCommit)
	node := &c07Node{readyC: make(chan raft.Ready)}
	st := raft.NewMemoryStorage()
	proposeC := make(chan *RaftProposal)
	confC := make(chan raftpb.ConfChangeI)
	rc := &RaftNode{commitC: commitC, errorC: make(chan error), stopc: make(chan struct{}), httpstopc: make(chan struct{}), httpdonec: make(chan struct{}),
		Node: node, raftStorage: st, wal: c07WALObject(), transport: &rafthttp.Transport{ErrorC: make(chan error)}, id: 1,
		proposeC: proposeC, confChangeC: confC, snapCount: 1000, getSnapshot: func() ([]byte, error) { return nil, nil }}
	vfSpawn(func() { rc.serveChannels() })
	// one Ready: a hard-state change, 0..1 new entries, 0..1 messages, 0..1 committed entries
	hs := raftpb.HardState{Term: vfUint64("hs.term"), Vote: vfUint64("hs.vote"), Commit: vfUint64("hs.commit")}
	vfAssume(vfAnd(hs.Term >= 1, hs.Term < 100))
	vfAssume(vfAnd(hs.Vote < 4, hs.Commit < 4))
	rd := raft.Ready{HardState: hs}
	nEnts := vfChoice("entries", 2)
	if nEnts == 1 {
		rd.Entries = []raftpb.Entry{{Index: 1, Term: 1, Data: []byte{'x'}}}
	}
	if vfChoice("messages", 2) == 1 {
		rd.Messages = []raftpb.Message{{Type: raftpb.MsgAppResp, To: 2, From: 1}}
	}
	committed := vfChoice("committed", 2) == 1
	if committed {
		rd.CommittedEntries = []raftpb.Entry{{Index: 1, Term: 1, Data: c07Payload('x')}}
	}
	before := ""
	if !vfIsSymbolic() {
		before = c07Probe()
	}
	node.readyC <- rd
	persistedAtPublish := true
	if committed {
		c := <-commitC
		// what the state machine (and through it the client) sees must already be in the WAL
		if vfIsSymbolic() {
			_, _, persistedAtPublish = c07Persisted()
		} else {
			persistedAtPublish = c07Probe() != before
		}
		vfAssert(len(c.Data) == 1, "publish-content")
		close(c.ApplyDoneC)
	}
	vfSettle()
	saved, savedEnts, ok := c07Persisted()
	vfAssert(ok, "ready-not-persisted")
	vfAssert(vfAnd(saved.Term == hs.Term, vfAnd(saved.Vote == hs.Vote, saved.Commit == hs.Commit)), "persisted-hardstate-differs")
	vfAssert(savedEnts == nEnts, "persisted-entries-differ")
	vfAssert(persistedAtPublish, "published-before-persisting")
	ad := c07Index("advance")
	vfAssert(ad >= 0, "no-advance")
	if vfIsSymbolic() { // event order of the stubbed calls (not observable natively)
		sv, sd := c07Index("save"), c07Index("send")
		vfAssert(sd > sv, "messages-sent-before-persisting")
		vfAssert(c07Sent == len(rd.Messages), "messages-not-sent")
		vfAssert(ad > sv && ad > sd, "advance-not-last")
	}
	if nEnts == 1 {
		li, _ := st.LastIndex()
		vfAssert(li == 1, "entries-not-appended-to-raft-storage")
	}
}

// ---------------------------------------------------------------------------
// VF_C08_snapshot_trigger: two rounds of applying entries and calling maybeTriggerSnapshot with small
// thresholds: a snapshot is taken exactly when more than snapCount entries were applied since the last
// one, never takes the node down, records the applied index, and compaction keeps what a restart needs.
func c08SaveSnap(rc *RaftNode, s raftpb.Snapshot) error {
	c07Event("savesnap")
	c08LastSnap = s.Metadata.Index
	return nil
}

var c08LastSnap uint64

func VF_C08_snapshot_trigger() {
	vfStubFunc("(*github.com/innovationb1ue/RedisGO/raftexample.RaftNode).saveSnap", c08SaveSnap)
	// in the code both thresholds are the same constant (10000); the harness keeps catch-up <= snapCount
	// (with a larger catch-up window two snapshots can ask for the same compaction index, which
	// MemoryStorage.Compact refuses)
	catchup := 1 + vfChoice("catchup", 3)
	snapshotCatchUpEntriesN = uint64(catchup)
	st := raft.NewMemoryStorage()
	var ents []raftpb.Entry
	for i := uint64(1); i <= 12; i++ {
		ents = append(ents, raftpb.Entry{Index: i, Term: 1})
	}
	st.Append(ents)
	rc := &RaftNode{raftStorage: st, stopc: make(chan struct{}), snapCount: uint64(catchup + vfChoice("snapcount-above-catchup", 2)),
		getSnapshot: func() ([]byte, error) { return []byte("state"), nil }}
	if !vfIsSymbolic() {
		rc.wal = c07NativeWAL()
		os.Mkdir(filepath.Join(c07Dir, "snap"), 0o750)
		rc.snapshotter = snap.New(zap.NewNop(), filepath.Join(c07Dir, "snap"))
		rc.confState = raftpb.ConfState{Voters: []uint64{1}}
	}
	applied := uint64(0)
	for round := 0; round < 3; round++ {
		applied += uint64(1 + vfChoice("step", 4))
		rc.appliedIndex = applied
		before := rc.snapshotIndex
		c07Events = nil
		rc.maybeTriggerSnapshot(nil)
		took := c07Index("savesnap") >= 0
		if !vfIsSymbolic() {
			took = false
			if sn, err := rc.snapshotter.Load(); err == nil && sn.Metadata.Index > before {
				took, c08LastSnap = true, sn.Metadata.Index
			}
		}
		vfAssert(took == (applied-before > rc.snapCount), "snapshot-threshold")
		if took {
			vfAssert(vfAnd(c08LastSnap == applied, rc.snapshotIndex == applied), "snapshot-index")
			sn, err := st.Snapshot()
			vfAssert(err == nil && sn.Metadata.Index == applied, "storage-snapshot-index")
		} else {
			vfAssert(rc.snapshotIndex == before, "snapshot-index-moved-without-snapshot")
		}
		fi, _ := st.FirstIndex()
		li, _ := st.LastIndex()
		vfAssert(fi <= applied+1, "compacted-beyond-applied")
		vfAssert(li == 12, "log-tail-lost")
	}
}

// ---------------------------------------------------------------------------
// VF_C08_replay: replayWAL rebuilds the raft storage from what the WAL returns: the snapshot, the hard
// state and every persisted entry (also those above the persisted commit index).
var c08Snap *raftpb.Snapshot
var c08State raftpb.HardState
var c08Ents []raftpb.Entry

func c08LoadSnapshot(rc *RaftNode) *raftpb.Snapshot                   { return c08Snap }
func c08OpenWAL(rc *RaftNode, s *raftpb.Snapshot) *wal.WAL            { return &wal.WAL{} }
func c08ReadAll(w *wal.WAL) ([]byte, raftpb.HardState, []raftpb.Entry, error) {
	return nil, c08State, c08Ents, nil
}

func VF_C08_replay() {
	vfStubFunc("(*github.com/innovationb1ue/RedisGO/raftexample.RaftNode).loadSnapshot", c08LoadSnapshot)
	vfStubFunc("(*github.com/innovationb1ue/RedisGO/raftexample.RaftNode).openWAL", c08OpenWAL)
	vfStubFunc("(*go.etcd.io/etcd/server/v3/storage/wal.WAL).ReadAll", c08ReadAll)
	si := uint64(vfChoice("snapindex", 3))
	c08Snap = &raftpb.Snapshot{}
	if si > 0 {
		c08Snap = &raftpb.Snapshot{Data: []byte("state"), Metadata: raftpb.SnapshotMetadata{Index: si, Term: 1, ConfState: raftpb.ConfState{Voters: []uint64{1, 2, 3}}}}
	}
	n := vfChoice("entries", 4)
	c08Ents = nil
	for i := 0; i < n; i++ {
		c08Ents = append(c08Ents, raftpb.Entry{Index: si + 1 + uint64(i), Term: 2, Data: []byte{byte('a' + i)}})
	}
	commit := vfUint64("commit")
	vfAssume(vfAnd(commit >= si, commit <= si+uint64(n)))
	c08State = raftpb.HardState{Term: 2, Vote: vfUint64("vote"), Commit: commit}
	vfAssume(c08State.Vote < 4)
	rc := &RaftNode{id: 1}
	if !vfIsSymbolic() {
		// the same history written through the real WAL / snapshotter, then replayed by the real code
		w := c07NativeWAL()
		rc.waldir, rc.snapdir = filepath.Join(c07Dir, "wal"), filepath.Join(c07Dir, "snap")
		os.Mkdir(rc.snapdir, 0o750)
		rc.snapshotter = snap.New(zap.NewNop(), rc.snapdir)
		rc.logger = zap.NewNop()
		if si > 0 {
			rc.snapshotter.SaveSnap(*c08Snap)
			w.SaveSnapshot(walpb.Snapshot{Index: si, Term: 1, ConfState: &c08Snap.Metadata.ConfState})
		}
		w.Save(c08State, c08Ents)
		w.Close()
	}
	rc.replayWAL()
	st := rc.raftStorage
	vfAssert(st != nil, "no-storage")
	li, _ := st.LastIndex()
	vfAssert(li == si+uint64(n), "persisted-entries-dropped-on-replay")
	fi, _ := st.FirstIndex()
	vfAssert(fi == si+1, "first-index-after-snapshot")
	hs, _, _ := st.InitialState()
	vfAssert(vfAnd(hs.Term == 2, vfAnd(hs.Vote == c08State.Vote, hs.Commit == commit)), "hardstate-not-restored")
	for i := 0; i < n; i++ {
		es, err := st.Entries(si+1+uint64(i), si+2+uint64(i), 1<<20)
		vfAssert(err == nil && len(es) == 1 && es[0].Data[0] == byte('a'+i), "entry-content-changed-on-replay")
	}
}

// ---------------------------------------------------------------------------
// VF_C07_publish_twice: a commit handed to the state machine is not touched again: publishing the next
// Ready's entries must not rewrite the proposals of the previous commit (the apply loop may still be
// iterating it).
func VF_C07_publish_twice() {
	vfStubFunc("encoding/json.Unmarshal", c07Unmarshal)
	commitC := make(chan *RaftCommit, 2)
	rc := &RaftNode{commitC: commitC, stopc: make(chan struct{}), Node: &c07Node{}, transport: &rafthttp.Transport{}, id: 1}
	n1 := 1 + vfChoice("first", 2)
	n2 := 1 + vfChoice("second", 2)
	var e1, e2 []raftpb.Entry
	for i := 0; i < n1; i++ {
		e1 = append(e1, raftpb.Entry{Index: uint64(i + 1), Data: c07Payload(byte('a' + i))})
	}
	for i := 0; i < n2; i++ {
		e2 = append(e2, raftpb.Entry{Index: uint64(n1 + i + 1), Data: c07Payload(byte('p' + i))})
	}
	_, ok := rc.publishEntries(e1)
	vfAssert(ok, "publish-refused")
	first := <-commitC
	_, ok = rc.publishEntries(e2)
	vfAssert(ok, "publish-refused")
	vfAssert(len(first.Data) == n1, "earlier-commit-resized")
	for i := 0; i < n1 && i < len(first.Data); i++ {
		vfAssert(first.Data[i].ID == string([]byte{byte('a' + i)}), "earlier-commit-rewritten-by-the-next-publish")
	}
	second := <-commitC
	vfAssert(len(second.Data) == n2, "second-commit-content")
}

// ---------------------------------------------------------------------------
// VF_C08_publish_snapshot: after a leader snapshot is installed the progress markers say so: applied
// and snapshot index equal the snapshot's index (otherwise the next snapshot trigger / replay start is
// computed from stale values), and the state machine was told to reload.
func VF_C08_publish_snapshot() {
	commitC := make(chan *RaftCommit, 1)
	applied := uint64(vfChoice("applied", 4))
	rc := &RaftNode{commitC: commitC, appliedIndex: applied, snapshotIndex: uint64(vfChoice("snapindex", int(applied)+1)), snapCount: 2}
	si := applied + 1 + uint64(vfChoice("ahead", 5))
	sn := raftpb.Snapshot{Data: []byte("state"), Metadata: raftpb.SnapshotMetadata{Index: si, Term: 2, ConfState: raftpb.ConfState{Voters: []uint64{1, 2, 3}}}}
	rc.publishSnapshot(sn)
	vfAssert(len(commitC) == 1, "state-machine-not-told-to-reload")
	if len(commitC) == 1 {
		vfAssert(<-commitC == nil, "reload-signal")
	}
	vfAssert(rc.appliedIndex == si, "applied-index-after-snapshot")
	vfAssert(rc.snapshotIndex == si, "snapshot-index-after-snapshot")
	vfAssert(len(rc.confState.Voters) == 3, "conf-state-after-snapshot")
}

// ---------------------------------------------------------------------------
// VF_C08_load_snapshot: at start-up only a snapshot the WAL knows about is loaded: a newer snapshot file
// without its WAL record (a crash between writing the file and the record) must be passed over.
var c08fs map[string][]byte

func c08ReadFile(name string) ([]byte, error) {
	b, ok := c08fs[name]
	if !ok {
		return nil, os.ErrNotExist
	}
	return append([]byte(nil), b...), nil
}
func c08Rename(o, n string) error                 { c08fs[n] = c08fs[o]; delete(c08fs, o); return nil }
func c08Remove(name string) error                 { delete(c08fs, name); return nil }
func c08Open(name string) (*os.File, error)       { return &os.File{}, nil }
func c08Close(f *os.File) error                   { return nil }
func c08Readdirnames(f *os.File, n int) ([]string, error) {
	var names []string
	for k := range c08fs {
		names = append(names, filepath.Base(k))
	}
	return names, nil
}
func c08WriteAndSync(filename string, data []byte, perm os.FileMode) error {
	c08fs[filename] = append([]byte(nil), data...)
	return nil
}

var c08WalSnaps []walpb.Snapshot

func c08WalExist(dir string) bool { return true }
func c08ValidSnapshotEntries(lg *zap.Logger, dir string) ([]walpb.Snapshot, error) {
	return c08WalSnaps, nil
}

func VF_C08_load_snapshot() {
	rc := &RaftNode{id: 1, logger: zap.NewNop()}
	cs := raftpb.ConfState{Voters: []uint64{1, 2, 3}}
	known := raftpb.Snapshot{Data: []byte("state3"), Metadata: raftpb.SnapshotMetadata{Index: 3, Term: 1, ConfState: cs}}
	orphanIdx := uint64(4 + vfChoice("orphan", 3))
	orphan := raftpb.Snapshot{Data: []byte("state?"), Metadata: raftpb.SnapshotMetadata{Index: orphanIdx, Term: 1, ConfState: cs}}
	withOrphan := vfChoice("with-orphan", 2) == 1
	if vfIsSymbolic() {
		c08fs = map[string][]byte{}
		vfStubFunc("os.ReadFile", c08ReadFile)
		vfStubFunc("os.Rename", c08Rename)
		vfStubFunc("os.Remove", c08Remove)
		vfStubFunc("os.Open", c08Open)
		vfStubFunc("(*os.File).Readdirnames", c08Readdirnames)
		vfStubFunc("(*os.File).Close", c08Close)
		vfStubFunc("go.etcd.io/etcd/pkg/v3/ioutil.WriteAndSyncFile", c08WriteAndSync)
		vfStubFunc("go.etcd.io/etcd/server/v3/storage/wal.Exist", c08WalExist)
		vfStubFunc("go.etcd.io/etcd/server/v3/storage/wal.ValidSnapshotEntries", c08ValidSnapshotEntries)
		rc.waldir, rc.snapdir = "/vfwal", "/vfsnap"
		rc.snapshotter = snap.New(zap.NewNop(), rc.snapdir)
		c08WalSnaps = []walpb.Snapshot{{}, {Index: 3, Term: 1}}
		vfAssert(rc.snapshotter.SaveSnap(known) == nil, "save-snap")
		if withOrphan {
			vfAssert(rc.snapshotter.SaveSnap(orphan) == nil, "save-snap")
		}
	} else {
		w := c07NativeWAL()
		rc.waldir, rc.snapdir = filepath.Join(c07Dir, "wal"), filepath.Join(c07Dir, "snap")
		os.Mkdir(rc.snapdir, 0o750)
		rc.snapshotter = snap.New(zap.NewNop(), rc.snapdir)
		rc.wal = w
		w.Save(raftpb.HardState{Term: 1, Commit: 3}, []raftpb.Entry{{Index: 1, Term: 1}, {Index: 2, Term: 1}, {Index: 3, Term: 1}})
		rc.saveSnap(known) // file + WAL record
		if withOrphan {
			rc.snapshotter.SaveSnap(orphan) // the file only: the crash came before the WAL record
		}
		w.Close()
	}
	got := rc.loadSnapshot()
	vfAssert(got != nil && got.Metadata.Index == 3, "loaded-a-snapshot-the-wal-does-not-know")
}
