//go:build verif

package raftexample

func vfNativeSetup() {}
