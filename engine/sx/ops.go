package sx

import (
	"go/constant"
	"go/token"
	"go/types"
	"math"
	"unicode/utf8"

	"golang.org/x/tools/go/ssa"
)

func (in *Interp) constValue(c *ssa.Const) Value {
	t := c.Type()
	if c.Value == nil {
		// zero value of any type (nil pointer, nil slice, zero struct for generics...)
		if b, ok := t.Underlying().(*types.Basic); ok && b.Kind() == types.UntypedNil {
			return Ptr{}
		}
		return in.zero(t)
	}
	switch b := t.Underlying().(type) {
	case *types.Basic:
		switch {
		case b.Info()&types.IsBoolean != 0:
			return in.ts.Bool(constant.BoolVal(c.Value))
		case b.Info()&types.IsInteger != 0:
			w := in.width(b)
			if b.Info()&types.IsUnsigned != 0 {
				return in.ts.BVConst(w, c.Uint64())
			}
			return in.ts.BVConst(w, uint64(c.Int64()))
		case b.Info()&types.IsFloat != 0:
			if b.Kind() == types.Float32 {
				return in.ts.F32Const(float32(c.Float64()))
			}
			return in.ts.F64Const(c.Float64())
		case b.Info()&types.IsString != 0:
			return Str{S: constant.StringVal(c.Value)}
		case b.Info()&types.IsComplex != 0:
			return Opaque{"complex"}
		}
	}
	panic(abortf("const of type %v", t))
}

func (in *Interp) asTerm(v Value) *Term {
	t, ok := v.(*Term)
	if !ok {
		panic(abortf("expected scalar, got %T", v))
	}
	return t
}

// concreteInt returns the concrete int64 value of v; if symbolic, forks over its feasible values.
func (in *Interp) concreteInt(v Value, signed bool, what string) int64 {
	t := in.asTerm(v)
	if !t.IsConst() {
		t = in.concretize(t, what)
	}
	if signed {
		return sext(t.C, t.Sort.W)
	}
	return int64(t.C)
}

func (in *Interp) binop(op token.Token, xt types.Type, x, y Value, yt types.Type) Value {
	ts := in.ts
	switch a := x.(type) {
	case *Term:
		b, ok := y.(*Term)
		if !ok {
			panic(abortf("binop %v on %T,%T", op, x, y))
		}
		switch a.Sort.K {
		case SBool:
			switch op {
			case token.EQL:
				return ts.Eq(a, b)
			case token.NEQ:
				return ts.Not(ts.Eq(a, b))
			case token.LAND, token.AND:
				return ts.And(a, b)
			case token.LOR, token.OR:
				return ts.Or(a, b)
			}
		case SF32, SF64:
			switch op {
			case token.ADD:
				return ts.FBin(OFAdd, a, b)
			case token.SUB:
				return ts.FBin(OFSub, a, b)
			case token.MUL:
				return ts.FBin(OFMul, a, b)
			case token.QUO:
				return ts.FBin(OFDiv, a, b)
			case token.EQL:
				return ts.FCmp(OFEq, a, b)
			case token.NEQ:
				return ts.Not(ts.FCmp(OFEq, a, b))
			case token.LSS:
				return ts.FCmp(OFLt, a, b)
			case token.LEQ:
				return ts.FCmp(OFLe, a, b)
			case token.GTR:
				return ts.FCmp(OFLt, b, a)
			case token.GEQ:
				return ts.FCmp(OFLe, b, a)
			}
		case SBV:
			signed := isSigned(xt)
			switch op {
			case token.ADD:
				return ts.Bin(OAdd, a, b)
			case token.SUB:
				return ts.Bin(OSub, a, b)
			case token.MUL:
				return ts.Bin(OMul, a, b)
			case token.QUO, token.REM:
				nz := ts.Not(ts.Eq(b, ts.BVConst(int(b.Sort.W), 0)))
				in.check(nz, "integer divide by zero")
				if op == token.QUO {
					if signed {
						return ts.Bin(OSDiv, a, b)
					}
					return ts.Bin(OUDiv, a, b)
				}
				var r *Term
				if signed {
					r = ts.Bin(OSRem, a, b)
				} else {
					r = ts.Bin(OURem, a, b)
				}
				// a remainder by a small constant (shard / stripe index) is forked into its few values at
				// once: everything computed from it stays concrete
				if !r.IsConst() && b.IsConst() && b.C >= 1 && b.C <= 16 && in.eagerSmallRem {
					return in.concretize(r, "small remainder")
				}
				return r
			case token.AND:
				return ts.Bin(OBAnd, a, b)
			case token.OR:
				return ts.Bin(OBOr, a, b)
			case token.XOR:
				return ts.Bin(OBXor, a, b)
			case token.AND_NOT:
				return ts.Bin(OBAnd, a, ts.BNot(b))
			case token.SHL, token.SHR:
				return in.shift(op, a, b, signed, isSigned(yt))
			case token.EQL:
				return ts.Eq(a, b)
			case token.NEQ:
				return ts.Not(ts.Eq(a, b))
			case token.LSS:
				if signed {
					return ts.Cmp(OSLt, a, b)
				}
				return ts.Cmp(OULt, a, b)
			case token.LEQ:
				if signed {
					return ts.Cmp(OSLe, a, b)
				}
				return ts.Cmp(OULe, a, b)
			case token.GTR:
				if signed {
					return ts.Cmp(OSLt, b, a)
				}
				return ts.Cmp(OULt, b, a)
			case token.GEQ:
				if signed {
					return ts.Cmp(OSLe, b, a)
				}
				return ts.Cmp(OULe, b, a)
			}
		}
	case Str:
		b := y.(Str)
		switch op {
		case token.ADD:
			return in.strConcat(a, b)
		case token.EQL:
			return in.strEq(a, b)
		case token.NEQ:
			return ts.Not(in.strEq(a, b))
		case token.LSS:
			return in.strLess(a, b)
		case token.GTR:
			return in.strLess(b, a)
		case token.LEQ:
			return ts.Not(in.strLess(b, a))
		case token.GEQ:
			return ts.Not(in.strLess(a, b))
		}
	default:
		switch op {
		case token.EQL:
			return in.eqMixed(x, y)
		case token.NEQ:
			return ts.Not(in.eqMixed(x, y))
		}
	}
	panic(abortf("binop %v on %T (%v)", op, x, xt))
}

// eqMixed handles comparisons such as iface == nil-pointer constant, slice == nil, etc.
func (in *Interp) eqMixed(x, y Value) *Term {
	// comparisons against untyped nil arrive as Ptr{} for any reference kind
	isNilPtr := func(v Value) bool { p, ok := v.(Ptr); return ok && p.IsNil() }
	// an opaque handle (logger, metric, ...) is a live object: never nil
	if _, ok := x.(Opaque); ok && isNilPtr(y) {
		return in.ts.False
	}
	if _, ok := y.(Opaque); ok && isNilPtr(x) {
		return in.ts.False
	}
	switch a := x.(type) {
	case Slice:
		if isNilPtr(y) {
			return in.ts.Bool(a.Nil)
		}
	case MapV:
		if isNilPtr(y) {
			return in.ts.Bool(a.M == nil)
		}
	case ChanV:
		if isNilPtr(y) {
			return in.ts.Bool(a.C == nil)
		}
	case FuncV:
		if isNilPtr(y) {
			return in.ts.Bool(a.IsNil())
		}
	case Iface:
		if isNilPtr(y) {
			return in.ts.Bool(a.T == nil)
		}
	case Ptr:
		if a.IsNil() {
			switch y.(type) {
			case Slice, MapV, ChanV, FuncV, Iface:
				return in.eqMixed(y, x)
			}
		}
	}
	return in.valEq(x, y)
}

func (in *Interp) shift(op token.Token, a, b *Term, signed, countSigned bool) Value {
	ts := in.ts
	w := int(a.Sort.W)
	if countSigned {
		neg := ts.Cmp(OSLt, b, ts.BVConst(int(b.Sort.W), 0))
		in.check(ts.Not(neg), "negative shift amount")
	}
	// normalise count to width w with saturation
	var cnt *Term
	var big *Term // count >= w
	bw := int(b.Sort.W)
	big = ts.Cmp(OULe, ts.BVConst(bw, uint64(w)), b)
	if bw > w {
		cnt = ts.Extract(b, w-1, 0)
	} else {
		cnt = ts.Zext(b, w)
	}
	var sh, over *Term
	switch {
	case op == token.SHL:
		sh = ts.Bin(OShl, a, cnt)
		over = ts.BVConst(w, 0)
	case signed:
		sh = ts.Bin(OAShr, a, cnt)
		over = ts.Bin(OAShr, a, ts.BVConst(w, uint64(w-1)))
	default:
		sh = ts.Bin(OLShr, a, cnt)
		over = ts.BVConst(w, 0)
	}
	return ts.Ite(big, over, sh)
}

func (in *Interp) unop(instr *ssa.UnOp, x Value) Value {
	ts := in.ts
	switch instr.Op {
	case token.NOT:
		return ts.Not(in.asTerm(x))
	case token.SUB:
		t := in.asTerm(x)
		if t.Sort.K == SBV {
			return ts.Neg(t)
		}
		return ts.FNeg(t)
	case token.XOR:
		return ts.BNot(in.asTerm(x))
	}
	panic(abortf("unop %v", instr.Op))
}

func (in *Interp) convert(dst, src types.Type, x Value) Value {
	ts := in.ts
	du, su := dst.Underlying(), src.Underlying()
	if db, ok := du.(*types.Basic); ok {
		switch {
		case db.Info()&types.IsInteger != 0:
			w := in.width(db)
			switch sb := su.(type) {
			case *types.Basic:
				t := in.asTerm(x)
				if sb.Info()&types.IsInteger != 0 {
					sw := int(t.Sort.W)
					switch {
					case sw == w:
						return t
					case sw > w:
						return ts.Extract(t, w-1, 0)
					case sb.Info()&types.IsUnsigned != 0:
						return ts.Zext(t, w)
					default:
						return ts.Sext(t, w)
					}
				}
				if sb.Info()&types.IsFloat != 0 {
					if r := in.intRoundTrip(t, w, db.Info()&types.IsUnsigned == 0); r != nil {
						return r
					}
					return ts.FToInt(t, db.Info()&types.IsUnsigned == 0, w)
				}
			case *types.Pointer:
				if db.Kind() == types.Uintptr {
					return Opaque{"uintptr(pointer)"}
				}
			}
			if _, ok := x.(Ptr); ok && db.Kind() == types.Uintptr {
				return Opaque{"uintptr(pointer)"}
			}
		case db.Info()&types.IsFloat != 0:
			s := F64Sort
			if db.Kind() == types.Float32 {
				s = F32Sort
			}
			if sb, ok := su.(*types.Basic); ok {
				t := in.asTerm(x)
				if sb.Info()&types.IsInteger != 0 {
					return ts.IntToF(t, sb.Info()&types.IsUnsigned == 0, s)
				}
				if sb.Info()&types.IsFloat != 0 {
					return ts.FToF(t, s)
				}
			}
		case db.Info()&types.IsString != 0:
			switch sv := x.(type) {
			case Str:
				return sv
			case Slice: // []byte or []rune -> string
				el := su.(*types.Slice).Elem().Underlying().(*types.Basic)
				if el.Kind() == types.Uint8 {
					if sv.Arr != nil && sv.Arr.Num != nil {
						return Str{Num: sv.Arr.Num}
					}
					if sv.Arr != nil && sv.Arr.FloatOf != nil {
						return Str{FloatOf: sv.Arr.FloatOf, S: "<float>"}
					}
					b := make([]*Term, sv.Len)
					for i := 0; i < sv.Len; i++ {
						b[i] = sv.Arr.V[sv.Off+i].(*Term)
					}
					return in.mkStr(b)
				}
				// []rune
				var buf []byte
				for i := 0; i < sv.Len; i++ {
					r := sv.Arr.V[sv.Off+i].(*Term)
					if !r.IsConst() {
						panic(abortf("string([]rune) with symbolic rune"))
					}
					buf = utf8.AppendRune(buf, rune(sext(r.C, 32)))
				}
				return Str{S: string(buf)}
			case *Term: // string(rune)
				if !sv.IsConst() {
					panic(abortf("string(rune) with symbolic rune"))
				}
				return Str{S: string(rune(sext(sv.C, sv.Sort.W)))}
			}
		case db.Kind() == types.UnsafePointer:
			return x
		}
	}
	switch dt := du.(type) {
	case *types.Slice:
		if s, ok := x.(Str); ok {
			el := dt.Elem().Underlying().(*types.Basic)
			if el.Kind() == types.Uint8 {
				if s.Num != nil {
					arr := &Agg{Num: s.Num}
					return Slice{Arr: arr, Len: -1, Cap: -1}
				}
				if s.FloatOf != nil {
					arr := &Agg{FloatOf: s.FloatOf}
					return Slice{Arr: arr, Len: -1, Cap: -1}
				}
				b := in.strBytes(s)
				arr := &Agg{V: make([]Value, len(b))}
				for i, t := range b {
					arr.V[i] = t
				}
				return Slice{Arr: arr, Len: len(b), Cap: len(b)}
			}
			// []rune(string)
			if !s.IsConcrete() {
				panic(abortf("[]rune(symbolic string)"))
			}
			rs := []rune(s.S)
			arr := &Agg{V: make([]Value, len(rs))}
			for i, r := range rs {
				arr.V[i] = in.ts.BVConst(32, uint64(r))
			}
			return Slice{Arr: arr, Len: len(rs), Cap: len(rs)}
		}
	case *types.Pointer:
		return x // unsafe.Pointer -> *T
	}
	panic(abortf("convert %v -> %v (%T)", src, dst, x))
}

var _ = math.Abs

// intRoundTrip recognises int(float64(x)) and int(math.Abs(float64(x))) on a symbolic 64-bit signed x
// and answers without floating-point reasoning: exact for |x| <= 2^53; beyond, the rounding of the
// int->float conversion is over-approximated by a fresh value within 1024 of the exact one (a sound
// over-approximation of the reachable results; the float64 spacing below 2^63 is at most 1024).
func (in *Interp) intRoundTrip(f *Term, w int, signed bool) *Term {
	if w != 64 || !signed || f.IsConst() {
		return nil
	}
	abs := false
	g := f
	if g.Op == OFAbs {
		abs = true
		g = g.A[0]
	}
	if g.Op != OSToF || g.A[0].Sort != BV(64) || g.Sort != F64Sort {
		return nil
	}
	ts := in.ts
	x := g.A[0]
	lim := in.i64(1 << 53)
	small := ts.And(ts.Cmp(OSLe, ts.Neg(lim), x), ts.Cmp(OSLe, x, lim))
	exact := x
	if abs {
		exact = ts.Ite(ts.Cmp(OSLt, x, in.i64(0)), ts.Neg(x), x)
	}
	r := in.fresh("fround", "aux", BV(64))
	// |x| as an unsigned magnitude avoids the MinInt64 corner
	mag := ts.Ite(ts.Cmp(OSLt, x, in.i64(0)), ts.Neg(x), x) // MinInt64 maps to itself = 2^63 unsigned
	var near *Term
	if abs {
		// result in [mag-1024, mag+1024] unsigned, and for mag = 2^63 the conversion yields MinInt64 (amd64)
		near = ts.And(ts.Cmp(OULe, ts.Bin(OSub, mag, in.i64(1024)), r), ts.Cmp(OULe, r, ts.Bin(OAdd, mag, in.i64(1024))))
	} else {
		d := ts.Bin(OSub, r, x)
		near = ts.And(ts.Cmp(OSLe, in.i64(-1024), d), ts.Cmp(OSLe, d, in.i64(1024)))
	}
	in.assume(ts.Or(small, near))
	return ts.Ite(small, exact, r)
}
