package sx

import (
	"encoding/json"
	"fmt"
	"os"
	"path/filepath"
	"sort"
	"strings"
	"time"

	"golang.org/x/tools/go/ssa"
)

type harnessSummary struct {
	Name string
	Pkg  string
	HR   *HarnessResult
}

type RunSummary struct {
	Property  string
	Tier      string
	Seed      int
	LoadTime  time.Duration
	Opt       *LoadOptions
	Known     *KnownFindings
	ReplayDir string
	NoReplay  bool
	Verbose   bool
	Solver    string

	hs         []harnessSummary
	violations int
	unconfirmed int
	machinery  []string
	knownSeen  map[string]int
	wall       time.Duration
	replays    int
	inAlt      bool
}

func (rs *RunSummary) Add(P *Program, fn *ssa.Function, hr *HarnessResult) {
	pkgDir := strings.TrimPrefix(fn.Pkg.Pkg.Path(), "github.com/innovationb1ue/RedisGO/")
	if strings.HasPrefix(fn.Pkg.Pkg.Path(), "go.etcd.io/etcd/") {
		pkgDir = "etcd/" + strings.TrimPrefix(fn.Pkg.Pkg.Path(), "go.etcd.io/etcd/")
		pkgDir = strings.Replace(pkgDir, "/v3", "", 1)
	}
	rs.hs = append(rs.hs, harnessSummary{Name: fn.Name(), Pkg: pkgDir, HR: hr})
	vk := []string{}
	for k, n := range hr.Verdicts {
		vk = append(vk, fmt.Sprintf("%s=%d", k, n))
	}
	sort.Strings(vk)
	fmt.Printf("harness %-40s paths=%-6d queries=%-7d solver=%.1fs wall=%.1fs %s\n", fn.Name(), hr.Paths, hr.Queries, hr.SolverTime.Seconds(), hr.Wall.Seconds(), strings.Join(vk, " "))
}

func (rs *RunSummary) Finish(wall time.Duration) int {
	rs.wall = wall
	rs.knownSeen = map[string]int{}
	for _, h := range rs.hs {
		hr := h.HR
		for what, n := range hr.Known {
			rs.knownSeen[what] += n
		}
		if hr.Paths == 0 {
			rs.machinery = append(rs.machinery, h.Name+": no path executed")
		}
		if hr.Verdicts["OK"] == 0 && len(hr.Known) == 0 && len(hr.Violations) == 0 {
			rs.machinery = append(rs.machinery, h.Name+": vacuous (no path reached the end of the harness)")
		}
		for _, a := range hr.Aborts {
			rs.machinery = append(rs.machinery, fmt.Sprintf("%s: ABORT %s @ %s", h.Name, a.Verdict.Label, a.Verdict.Func))
		}
		if hr.Inconc > 0 {
			rs.machinery = append(rs.machinery, fmt.Sprintf("%s: %d inconclusive solver answers (timeout/unknown), last at %s", h.Name, hr.Inconc, hr.InconcAt))
		}
		if hr.Truncated {
			rs.machinery = append(rs.machinery, fmt.Sprintf("%s: exploration truncated by budget after %d paths", h.Name, hr.Paths))
		}
		for i := range hr.Violations {
			v := &hr.Violations[i]
			if v.Verdict.Kind == "INCONCLUSIVE" {
				rs.machinery = append(rs.machinery, fmt.Sprintf("%s: %s", h.Name, v.Verdict.String()))
				continue
			}
			if (v.Verdict.Kind == "UNWIND" || v.Verdict.Kind == "ALLOC") && !hr.Reached["opt:hangcheck"] {
				rs.machinery = append(rs.machinery, fmt.Sprintf("%s: bound hit: %s (%s)", h.Name, v.Verdict.String(), v.Verdict.Pos))
				continue
			}
			rs.reportViolation(h, v)
		}
	}
	for what, n := range rs.knownSeen {
		fmt.Printf("KNOWN-FINDING: property=%s %s (paths=%d)\n", rs.Property, what, n)
	}
	seenM := map[string]bool{}
	var uniq []string
	for _, m := range rs.machinery {
		if !seenM[m] {
			seenM[m] = true
			uniq = append(uniq, m)
		}
	}
	rs.machinery = uniq
	for _, m := range rs.machinery {
		fmt.Printf("MACHINERY: %s\n", m)
	}
	fmt.Printf("summary property=%s tier=%s harnesses=%d violations=%d unconfirmed=%d machinery=%d wall=%.1fs (load %.1fs)\n",
		rs.Property, rs.Tier, len(rs.hs), rs.violations, rs.unconfirmed, len(rs.machinery), wall.Seconds(), rs.LoadTime.Seconds())
	if rs.violations > 0 {
		return 1
	}
	if len(rs.machinery) > 0 || rs.unconfirmed > 0 || len(rs.hs) == 0 {
		return 2
	}
	return 0
}

func (rs *RunSummary) reportViolation(h harnessSummary, v *PathResult) {
	rf := BuildReplay(rs.Property, h.Name, h.Pkg, v)
	dir := filepath.Join(rs.ReplayDir, rs.Property)
	os.MkdirAll(dir, 0o755)
	rs.replays++
	path := filepath.Join(dir, fmt.Sprintf("%s-%d.json", h.Name, rs.replays))
	write := func() {
		data, _ := json.MarshalIndent(rf, "", " ")
		os.WriteFile(path, append(data, '\n'), 0o644)
	}
	write()
	if rs.NoReplay {
		fmt.Printf("CANDIDATE property=%s harness=%s verdict=%s paths=%d pos=%s inputs: %s\n", rs.Property, h.Name, v.Verdict.String(), h.HR.VCount[v.Verdict.String()], v.Verdict.Pos, rf.Inputs)
		fmt.Printf("VIOLATION property=%s replay=%s\n", rs.Property, path)
		rs.violations++
		return
	}
	to := 60 * time.Second
	if v.Verdict.Kind == "UNWIND" || v.Verdict.Kind == "ALLOC" || v.Verdict.Kind == "DEADLOCK" {
		to = 20 * time.Second
	}
	RaceReplay = v.Verdict.Kind == "RACE"
	native, cmd, err := NativeReplay(rs.Opt, h.Pkg, h.Name, path, to)
	RaceReplay = false
	rf.Native = native
	rf.Cmd = cmd
	write()
	if err != nil {
		rs.machinery = append(rs.machinery, fmt.Sprintf("%s: native replay failed: %v", h.Name, err))
		return
	}
	if Confirmed(v.Verdict, native) {
		fmt.Printf("counterexample harness=%s verdict=%s pos=%s native=%q inputs: %s\n", h.Name, v.Verdict.String(), v.Verdict.Pos, native, rf.Inputs)
		fmt.Printf("VIOLATION property=%s replay=%s\n", rs.Property, path)
		rs.violations++
		return
	}
	// the same verdict was reached on other paths: try their counterexamples before giving up
	if !rs.inAlt {
		for i := range h.HR.Alt[v.Verdict.String()] {
			alt := &h.HR.Alt[v.Verdict.String()][i]
			rs.inAlt = true
			before := rs.violations
			rs.reportViolation(h, alt)
			rs.inAlt = false
			if rs.violations > before {
				return
			}
		}
		fmt.Printf("UNCONFIRMED harness=%s verdict=%s native=%q replay=%s inputs: %s\n", h.Name, v.Verdict.String(), native, path, rf.Inputs)
		rs.unconfirmed++
	}
}

func ReadReplay(path string) (*ReplayFile, error) {
	data, err := os.ReadFile(path)
	if err != nil {
		return nil, err
	}
	rf := &ReplayFile{}
	if err := json.Unmarshal(data, rf); err != nil {
		return nil, err
	}
	return rf, nil
}

func (rs *RunSummary) WriteEvidence(path string) error {
	paths, queries, steps, decisions, lenient := 0, 0, int64(0), 0, 0
	var solverT time.Duration
	oneshots, oneshotOK := 0, 0
	funcs := map[string]bool{}
	var samples []interface{}
	verdicts := map[string]int{}
	nontrivial := 0
	var hnames []string
	for _, h := range rs.hs {
		hr := h.HR
		paths += hr.Paths
		queries += hr.Queries
		oneshots += hr.OneShots
		oneshotOK += hr.OneShotOK
		steps += hr.Steps
		decisions += hr.Decisions
		lenient += hr.Lenient
		solverT += hr.SolverTime
		for f := range hr.Funcs {
			funcs[f] = true
		}
		for k, n := range hr.Verdicts {
			verdicts[k] += n
		}
		// non-trivial: distinct feasible paths that ended OK or in a verdict after at least one solver-decided branch
		nontrivial += hr.NonTrivial
		for _, s := range hr.Samples {
			if len(samples) < 12 {
				samples = append(samples, h.Name+": "+s)
			}
		}
		hnames = append(hnames, fmt.Sprintf("%s(paths=%d)", h.Name, hr.Paths))
	}
	var encoded []string
	for _, f := range sortedKeys(funcs) {
		if strings.Contains(f, "RedisGO") || strings.Contains(f, "go.etcd.io") {
			encoded = append(encoded, f)
		}
	}
	if len(samples) == 0 {
		samples = append(samples, "no OK path with symbolic inputs")
	}
	known := []string{}
	for w, n := range rs.knownSeen {
		known = append(known, fmt.Sprintf("%s (paths=%d)", w, n))
	}
	sort.Strings(known)
	cov := map[string]interface{}{
		"evaluations":          queries,
		"distinct_nontrivial":  nontrivial,
		"rule":                 "evaluations = SMT queries discharged (branch feasibility, assertion and run-time-check obligations); a case is one feasible execution path of a harness through the real SSA of /repo (distinct decision vectors); non-trivial = the path took at least one solver-decided two-sided branch on symbolic input",
		"samples":              samples,
		"paths":                paths,
		"obligations":          paths,
		"discharged":           verdicts["OK"] + verdicts["ASSUME"],
		"verdicts":             verdicts,
		"ssa_instructions_run": steps,
		"decisions":            decisions,
		"solver":               rs.Solver + " (incremental, one process per worker); undecided queries re-run one-shot in fresh z3 and cvc5 processes",
		"oneshot_queries":      oneshots,
		"oneshot_decided":      oneshotOK,
		"solver_time_s":        solverT.Seconds(),
		"functions_encoded":    encoded,
		"harnesses":            hnames,
		"known_findings_seen":  known,
		"lenient_accepts":      lenient,
		"machinery_notes":      rs.machinery,
		"unconfirmed_models":   rs.unconfirmed,
		"exhaustive":           false,
		"trusted_base":         []string{"gosx SSA interpreter + intrinsics (see DESIGN.md §2.4)", "z3 5.1.0 (z3-new); cross-checked with z3 4.8.12 via --solver z3", "golang.org/x/tools/go/ssa v0.29.0"},
	}
	ev := &Evidence{PropertyID: rs.Property, Tier: rs.Tier, Seed: rs.Seed, Level: "model_checking", Coverage: cov,
		Assumptions: Assumptions(rs.Property), WallS: rs.wall.Seconds(), Violations: rs.violations}
	return WriteEvidence(path, ev)
}

// Assumptions lists the stubs/bounds that are part of every claim; per-property bounds are added by bounds.json.
func Assumptions(property string) []string {
	base := []string{
		"bounded: only inputs within the harness bounds (lengths, element counts, unwindings) are covered; see coverage.harnesses and DESIGN.md",
		"encoding regenerated from /repo's working tree on every run (go/packages + go/ssa, overlay harness files)",
		"stubs: logger/log/fmt printing have no effect; fmt.Sprintf exact on concrete operands and simple %s/%d/%v, otherwise an opaque text; strings.ToLower/ToUpper modelled byte-wise on ASCII (non-ASCII bytes through them are outside the bound); time.Now is a fresh non-decreasing symbolic whole second; goroutines spawned by the code under test run only when the main thread blocks unless the harness enables concurrent mode",
	}
	data, err := os.ReadFile("/verif/bounds.json")
	if err == nil {
		var m map[string][]string
		if json.Unmarshal(data, &m) == nil {
			base = append(base, m[property]...)
		}
	}
	return base
}
