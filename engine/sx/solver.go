package sx

import (
	"bufio"
	"os"
	"fmt"
	"io"
	"os/exec"
	"strconv"
	"strings"
	"time"
)

// Solver is one long-lived SMT solver process spoken to in SMT-LIB2 text.
type Solver struct {
	cmd      *exec.Cmd
	in       io.WriteCloser
	out      *bufio.Reader
	bin      string
	args     []string
	Queries  int
	Time     time.Duration
	Unknowns int
	Errors   int
	// scopes: defined[level] = ids defined in that level
	defined []map[int32]bool
	ufDone  []map[string]bool
	log     io.Writer
	timeout int // ms
	lines   chan string
	ring    []string
	Hung    int
	broken  bool
	// mirror of the declarations/definitions/assertions currently in force, per scope, so that a query
	// the incremental core cannot decide can be re-run one-shot (fresh process, tactic-based solver)
	script         [][]string
	OneShots       int
	OneShotDecided int
	SoftMs         int // incremental per-query timeout before falling back to one-shot (0 = timeout)
}

func NewSolver(kind string, timeoutMs int) (*Solver, error) {
	s := &Solver{timeout: timeoutMs}
	switch kind {
	case "z3":
		s.bin, s.args = "z3", []string{"-in", "-smt2"}
	case "", "z3-new":
		s.bin, s.args = "z3-new", []string{"-in", "-smt2"}
	case "cvc5":
		s.bin, s.args = "cvc5", []string{"--incremental", "--lang=smt2", "--produce-models", "--fp-exp", fmt.Sprintf("--tlimit-per=%d", timeoutMs)}
	default:
		return nil, fmt.Errorf("unknown solver %q", kind)
	}
	if err := s.start(); err != nil {
		return nil, err
	}
	return s, nil
}

func (s *Solver) start() error {
	s.cmd = exec.Command(s.bin, s.args...)
	in, err := s.cmd.StdinPipe()
	if err != nil {
		return err
	}
	out, err := s.cmd.StdoutPipe()
	if err != nil {
		return err
	}
	s.cmd.Stderr = nil
	if err := s.cmd.Start(); err != nil {
		return err
	}
	s.in = in
	s.out = bufio.NewReaderSize(out, 1<<16)
	if p := os.Getenv("GOSX_SMTLOG"); p != "" && s.log == nil {
		if f, err := os.CreateTemp("", p+"-*.smt2"); err == nil {
			s.log = f
		}
	}
	s.lines = make(chan string, 1024)
	s.broken = false
	go func(r *bufio.Reader, ch chan string) {
		for {
			line, err := r.ReadString('\n')
			if line != "" {
				ch <- line
			}
			if err != nil {
				close(ch)
				return
			}
		}
	}(s.out, s.lines)
	s.defined = []map[int32]bool{{}}
	s.ufDone = []map[string]bool{{}}
	s.script = [][]string{nil}
	s.send("(set-option :print-success false)")
	s.send("(set-option :produce-models true)")
	if s.bin != "cvc5" {
		s.send(fmt.Sprintf("(set-option :timeout %d)", s.timeout))
	} else {
		s.send("(set-logic ALL)")
	}
	return nil
}

func (s *Solver) Close() {
	if s.cmd != nil {
		s.in.Close()
		s.cmd.Process.Kill()
		s.cmd.Wait()
		s.cmd = nil
	}
}

func (s *Solver) Restart() error {
	s.Close()
	return s.start()
}

func (s *Solver) send(line string) {
	if len(line) > 3 && (line[1] == 'd' || line[1] == 'a') { // define-fun / declare-* / assert
		if len(s.script) == 0 {
			s.script = [][]string{nil}
		}
		s.script[len(s.script)-1] = append(s.script[len(s.script)-1], line)
	} else if strings.HasPrefix(line, "(push") {
		s.script = append(s.script, nil)
	} else if strings.HasPrefix(line, "(pop") && len(s.script) > 1 {
		s.script = s.script[:len(s.script)-1]
	}
	if s.log != nil {
		fmt.Fprintln(s.log, line)
	}
	if len(s.ring) >= 400 {
		s.ring = s.ring[200:]
	}
	s.ring = append(s.ring, line)
	io.WriteString(s.in, line)
	io.WriteString(s.in, "\n")
}

func (s *Solver) Push() {
	s.send("(push 1)")
	s.defined = append(s.defined, map[int32]bool{})
	s.ufDone = append(s.ufDone, map[string]bool{})
}

func (s *Solver) Pop() {
	s.send("(pop 1)")
	s.defined = s.defined[:len(s.defined)-1]
	s.ufDone = s.ufDone[:len(s.ufDone)-1]
}

func (s *Solver) Level() int { return len(s.defined) - 1 }

func (s *Solver) isDefined(id int32) bool {
	for _, m := range s.defined {
		if m[id] {
			return true
		}
	}
	return false
}

// define emits declarations/definitions for t and its sub-terms (iteratively).
func (s *Solver) define(ts *TermStore, t *Term) {
	if t.Op == OConst || s.isDefined(t.ID) {
		return
	}
	type item struct {
		t    *Term
		done bool
	}
	stack := []item{{t, false}}
	top := s.defined[len(s.defined)-1]
	for len(stack) > 0 {
		it := stack[len(stack)-1]
		stack = stack[:len(stack)-1]
		x := it.t
		if x.Op == OConst || s.isDefined(x.ID) {
			continue
		}
		if !it.done {
			stack = append(stack, item{x, true})
			for _, a := range x.A {
				if a != nil && a.Op != OConst && !s.isDefined(a.ID) {
					stack = append(stack, item{a, false})
				}
			}
			for _, a := range x.Args {
				if a.Op != OConst && !s.isDefined(a.ID) {
					stack = append(stack, item{a, false})
				}
			}
			continue
		}
		switch x.Op {
		case OVar:
			s.send(fmt.Sprintf("(declare-const %s %s)", x.Name, x.Sort.String()))
		case OUF:
			known := false
			for _, m := range s.ufDone {
				if m[x.Name] {
					known = true
				}
			}
			if !known {
				s.send(ts.ufs[x.Name])
				s.ufDone[len(s.ufDone)-1][x.Name] = true
			}
			s.send(fmt.Sprintf("(define-fun t%d () %s %s)", x.ID, x.Sort.String(), body(x)))
		default:
			s.send(fmt.Sprintf("(define-fun t%d () %s %s)", x.ID, x.Sort.String(), body(x)))
		}
		top[x.ID] = true
	}
}

func (s *Solver) Assert(ts *TermStore, t *Term) {
	s.define(ts, t)
	s.send("(assert " + ref(t) + ")")
}

// Result of a check.
type SatResult int

const (
	Unsat SatResult = iota
	Sat
	Unknown
)

func (r SatResult) String() string { return [...]string{"unsat", "sat", "unknown"}[r] }

// readRaw returns the next output line of the solver; a solver that stays silent for longer than its
// own per-query timeout plus a grace period is killed and restarted (the current path is lost).
func (s *Solver) readRaw() (string, error) {
	if s.broken {
		return "", io.EOF
	}
	select {
	case line, ok := <-s.lines:
		if !ok {
			s.broken = true
			return "", io.EOF
		}
		return line, nil
	case <-time.After(time.Duration(s.timeout)*time.Millisecond + 20*time.Second):
		s.Hung++
		s.broken = true
		if f, err := os.CreateTemp("", "gosx-hang-*.smt2"); err == nil {
			for _, l := range s.ring {
				fmt.Fprintln(f, l)
			}
			f.Close()
		}
		return "", io.EOF
	}
}

func (s *Solver) readLine() (string, error) {
	line, err := s.readRaw()
	return strings.TrimSpace(line), err
}

func (s *Solver) Check() SatResult {
	t0 := time.Now()
	s.send("(check-sat)")
	s.Queries++
	var res SatResult = Unknown
	errSeen := false
	for {
		line, err := s.readLine()
		if err != nil {
			s.Errors++
			s.Time += time.Since(t0)
			return Unknown
		}
		if line == "" {
			continue
		}
		switch {
		case line == "sat":
			res = Sat
		case line == "unsat":
			res = Unsat
		case line == "unknown" || line == "timeout":
			res = Unknown
			s.Unknowns++
		case strings.HasPrefix(line, "(error"):
			s.Errors++
			if s.log != nil {
				fmt.Fprintln(s.log, "; ERROR: "+line)
			}
			LastSolverError = line
			errSeen = true
			continue // the verdict line still follows
		default:
			continue
		}
		break
	}
	s.Time += time.Since(t0)
	if errSeen {
		return Unknown
	}
	return res
}

var LastSolverError string

// CheckWith checks satisfiability of the current assertions plus extra.
func (s *Solver) CheckWith(ts *TermStore, extra *Term) SatResult {
	s.define(ts, extra)
	s.send("(push 1)")
	s.send("(assert " + ref(extra) + ")")
	soft := s.SoftMs > 0 && s.SoftMs < s.timeout && s.bin != "cvc5"
	if soft {
		s.send(fmt.Sprintf("(set-option :timeout %d)", s.SoftMs))
	}
	r := s.Check()
	if soft {
		s.send(fmt.Sprintf("(set-option :timeout %d)", s.timeout))
	}
	if r == Unknown && !s.broken && s.bin != "cvc5" {
		if r2 := s.oneShot(); r2 != Unknown {
			r = r2
			s.Unknowns--
			s.OneShotDecided++
		}
	}
	s.send("(pop 1)")
	return r
}

// oneShot re-runs the current assertion stack in a fresh solver process (non-incremental: z3 then
// uses its bit-blasting tactic instead of the incremental SMT core, which decides XOR-heavy CRC
// queries in milliseconds that the incremental core times out on).
func (s *Solver) oneShot() SatResult {
	r, _ := s.oneShotQ(nil)
	return r
}

// oneShotQ: one-shot check of the current stack; with want != nil also the model value of want.
func (s *Solver) oneShotQ(want *Term) (SatResult, uint64) {
	t0 := time.Now()
	s.OneShots++
	var sb strings.Builder
	for _, sc := range s.script {
		for _, l := range sc {
			sb.WriteString(l)
			sb.WriteByte('\n')
		}
	}
	sb.WriteString("(check-sat)\n")
	if want != nil {
		sb.WriteString("(get-value (" + ref(want) + "))\n")
	}
	lim := s.timeout * 3 / 1000
	if lim < 20 {
		lim = 20
	}
	out := []byte(s.raceOneShot(sb.String(), lim))
	s.Time += time.Since(t0)
	if d := os.Getenv("GOSX_DUMPFAIL"); d != "" && !strings.HasPrefix(strings.TrimSpace(string(out)), "sat") && !strings.HasPrefix(strings.TrimSpace(string(out)), "unsat") {
		if f, err := os.CreateTemp(d, "oneshot-*.smt2"); err == nil {
			f.WriteString(sb.String())
			fmt.Fprintf(f, "; output: %q after %v\n", string(out), time.Since(t0))
			f.Close()
		}
	}
	res := Unknown
	var val uint64
	for _, line := range strings.Split(string(out), "\n") {
		line = strings.TrimSpace(line)
		switch {
		case strings.HasPrefix(line, "(error"):
			if res == Unsat {
				continue // get-value after unsat
			}
			return Unknown, 0
		case line == "sat":
			res = Sat
		case line == "unsat":
			res = Unsat
		case want != nil && res == Sat && strings.HasPrefix(line, "(("):
			toks := tokenize(line)
			if len(toks) >= 4 {
				val, _ = parseValue(toks, 3, want.Sort)
			}
		}
	}
	return res, val
}

// CheckValue: satisfiability of the current stack and a model value of t (t already defined);
// falls back to a one-shot run when the incremental core gives up.
func (s *Solver) CheckValue(t *Term) (SatResult, uint64) {
	r := s.Check()
	if r == Sat {
		return r, s.TermValue(t)
	}
	if r == Unknown && !s.broken && s.bin != "cvc5" {
		r2, v := s.oneShotQ(t)
		if r2 != Unknown {
			s.Unknowns--
			s.OneShotDecided++
		}
		return r2, v
	}
	return r, 0
}

// Values reads the model values of the given variables (after a Sat check).
// Returned: name -> uint64 payload (bv value / bool / IEEE bits).
func (s *Solver) Values(vars []*Term) map[string]uint64 {
	res := map[string]uint64{}
	if len(vars) == 0 {
		return res
	}
	const chunk = 200
	for i := 0; i < len(vars); i += chunk {
		j := i + chunk
		if j > len(vars) {
			j = len(vars)
		}
		var sb strings.Builder
		sb.WriteString("(get-value (")
		for _, v := range vars[i:j] {
			sb.WriteString(v.Name + " ")
		}
		sb.WriteString("))")
		s.send(sb.String())
		txt := s.readSexp()
		parseValues(txt, vars[i:j], res)
	}
	return res
}

// readSexp reads one balanced s-expression from the solver output.
func (s *Solver) readSexp() string {
	var sb strings.Builder
	depth := 0
	started := false
	for {
		line, err := s.readRaw()
		for _, c := range line {
			if c == '(' {
				depth++
				started = true
			} else if c == ')' {
				depth--
			}
		}
		sb.WriteString(line)
		if err != nil || (started && depth <= 0) {
			break
		}
	}
	return sb.String()
}

func tokenize(s string) []string {
	var toks []string
	i := 0
	for i < len(s) {
		c := s[i]
		switch {
		case c == '(' || c == ')':
			toks = append(toks, string(c))
			i++
		case c == ' ' || c == '\n' || c == '\t' || c == '\r':
			i++
		default:
			j := i
			for j < len(s) && !strings.ContainsRune("() \n\t\r", rune(s[j])) {
				j++
			}
			toks = append(toks, s[i:j])
			i = j
		}
	}
	return toks
}

func parseBVLit(tok string) (uint64, int, bool) {
	if strings.HasPrefix(tok, "#x") {
		v, err := strconv.ParseUint(tok[2:], 16, 64)
		return v, 4 * (len(tok) - 2), err == nil
	}
	if strings.HasPrefix(tok, "#b") {
		v, err := strconv.ParseUint(tok[2:], 2, 64)
		return v, len(tok) - 2, err == nil
	}
	return 0, 0, false
}

func parseValues(txt string, vars []*Term, res map[string]uint64) {
	toks := tokenize(txt)
	byName := map[string]*Term{}
	for _, v := range vars {
		byName[v.Name] = v
	}
	// pattern: ( ( name value ) ( name value ) ... )
	i := 0
	for i < len(toks) {
		if toks[i] == "(" && i+1 < len(toks) {
			if v, ok := byName[toks[i+1]]; ok {
				// parse value starting at i+2
				j := i + 2
				val, nj := parseValue(toks, j, v.Sort)
				res[v.Name] = val
				i = nj
				continue
			}
		}
		i++
	}
}

func parseValue(toks []string, j int, sort Sort) (uint64, int) {
	if j >= len(toks) {
		return 0, j
	}
	tok := toks[j]
	switch sort.K {
	case SBool:
		if tok == "true" {
			return 1, j + 1
		}
		return 0, j + 1
	case SBV:
		if v, _, ok := parseBVLit(tok); ok {
			return v, j + 1
		}
		if tok == "(" && j+2 < len(toks) && toks[j+1] == "_" && strings.HasPrefix(toks[j+2], "bv") {
			v, _ := strconv.ParseUint(toks[j+2][2:], 10, 64)
			return v, j + 5
		}
		return 0, j + 1
	case SF64, SF32:
		eb, sb := 11, 52
		if sort.K == SF32 {
			eb, sb = 8, 23
		}
		if tok == "(" && j+1 < len(toks) {
			if toks[j+1] == "fp" && j+4 < len(toks) {
				sg, _, _ := parseBVLit(toks[j+2])
				ex, _, _ := parseBVLit(toks[j+3])
				mt, _, _ := parseBVLit(toks[j+4])
				return sg<<uint(eb+sb) | ex<<uint(sb) | mt, j + 6
			}
			if toks[j+1] == "_" && j+2 < len(toks) {
				kind := toks[j+2]
				var sg, ex, mt uint64
				switch kind {
				case "+zero":
				case "-zero":
					sg = 1
				case "+oo":
					ex = (1 << uint(eb)) - 1
				case "-oo":
					sg = 1
					ex = (1 << uint(eb)) - 1
				case "NaN":
					ex = (1 << uint(eb)) - 1
					mt = 1 << uint(sb-1)
				}
				// skip to closing paren
				k := j
				for k < len(toks) && toks[k] != ")" {
					k++
				}
				return sg<<uint(eb+sb) | ex<<uint(sb) | mt, k + 1
			}
		}
		return 0, j + 1
	}
	return 0, j + 1
}

// Broken reports that the solver process was lost (hang watchdog or crash); Restart before reuse.
func (s *Solver) Broken() bool { return s.broken }

// CheckModel: satisfiability of the current stack and the model values of vars (already declared);
// falls back to a one-shot run when the incremental core gives up.
func (s *Solver) CheckModel(vars []*Term) (SatResult, map[string]uint64) {
	r := s.Check()
	if r == Sat {
		return r, s.Values(vars)
	}
	if r != Unknown || s.broken || s.bin == "cvc5" {
		return r, nil
	}
	t0 := time.Now()
	s.OneShots++
	var sb strings.Builder
	sb.WriteString("(set-option :produce-models true)\n")
	for _, sc := range s.script {
		for _, l := range sc {
			sb.WriteString(l)
			sb.WriteByte('\n')
		}
	}
	sb.WriteString("(check-sat)\n")
	const chunk = 200
	nchunks := 0
	for i := 0; i < len(vars); i += chunk {
		j := i + chunk
		if j > len(vars) {
			j = len(vars)
		}
		sb.WriteString("(get-value (")
		for _, v := range vars[i:j] {
			sb.WriteString(v.Name + " ")
		}
		sb.WriteString("))\n")
		nchunks++
	}
	lim := s.timeout * 3 / 1000
	if lim < 20 {
		lim = 20
	}
	out := []byte(s.raceOneShot(sb.String(), lim))
	s.Time += time.Since(t0)
	txt := string(out)
	nl := strings.Index(txt, "\n")
	if nl < 0 {
		return Unknown, nil
	}
	first := strings.TrimSpace(txt[:nl])
	if first == "unsat" {
		s.Unknowns--
		s.OneShotDecided++
		return Unsat, nil
	}
	if first != "sat" || strings.Contains(txt, "(error") {
		return Unknown, nil
	}
	res := map[string]uint64{}
	parseValues(txt[nl+1:], vars, res)
	s.Unknowns--
	s.OneShotDecided++
	return Sat, res
}

// raceOneShot runs the script in fresh z3 and cvc5 processes concurrently and returns the output of
// the first one that answers sat/unsat (the two have complementary strengths on the XOR/varint queries).
func (s *Solver) raceOneShot(script string, limSec int) string {
	type ans struct{ out string }
	ch := make(chan ans, 2)
	mk := func(bin string, args []string, pre string) *exec.Cmd {
		cmd := exec.Command(bin, args...)
		cmd.Stdin = strings.NewReader(pre + script)
		return cmd
	}
	cmds := []*exec.Cmd{
		mk(s.bin, []string{"-in", "-smt2", fmt.Sprintf("-T:%d", limSec)}, ""),
		mk("cvc5", []string{"--lang=smt2", "--produce-models", "--fp-exp", fmt.Sprintf("--tlimit=%d", limSec*1000)}, "(set-logic ALL)\n"),
	}
	for _, c := range cmds {
		go func(c *exec.Cmd) {
			out, _ := c.Output()
			ch <- ans{string(out)}
		}(c)
	}
	var last string
	for i := 0; i < len(cmds); i++ {
		a := <-ch
		t := strings.TrimSpace(a.out)
		if strings.HasPrefix(t, "sat") || strings.HasPrefix(t, "unsat") {
			for _, c := range cmds {
				if c.Process != nil {
					c.Process.Kill()
				}
			}
			return a.out
		}
		last = a.out
	}
	return last
}
