// Package sx is gosx: a bounded symbolic executor for Go SSA with an SMT back end.
package sx

import (
	"fmt"
	"math"
	"strings"
)

// ---------------------------------------------------------------------------
// Sorts

type SortKind uint8

const (
	SBool SortKind = iota
	SBV
	SF32
	SF64
)

type Sort struct {
	K SortKind
	W uint8 // bit-vector width (1..64)
}

var (
	BoolSort = Sort{SBool, 0}
	F64Sort  = Sort{SF64, 0}
	F32Sort  = Sort{SF32, 0}
)

func BV(w int) Sort { return Sort{SBV, uint8(w)} }

func (s Sort) String() string {
	switch s.K {
	case SBool:
		return "Bool"
	case SBV:
		return fmt.Sprintf("(_ BitVec %d)", s.W)
	case SF32:
		return "(_ FloatingPoint 8 24)"
	case SF64:
		return "(_ FloatingPoint 11 53)"
	}
	return "?"
}

// ---------------------------------------------------------------------------
// Terms (hash-consed per TermStore, constant-folded on construction)

type Op uint8

const (
	OConst Op = iota
	OVar
	ONot
	OAnd
	OOr
	OEq
	OIte
	OAdd
	OSub
	OMul
	OUDiv
	OSDiv
	OURem
	OSRem
	OBAnd
	OBOr
	OBXor
	OShl
	OLShr
	OAShr
	OULt
	OULe
	OSLt
	OSLe
	OZext   // aux = new width
	OSext   // aux = new width
	OExtr   // aux = hi<<8|lo
	OConcat // a ++ b (a high)
	OFAdd
	OFSub
	OFMul
	OFDiv
	OFNeg
	OFLt
	OFLe
	OFEq
	OFIsNaN
	OFIsInf
	OSToF  // signed bv -> float (sort of result in Sort)
	OUToF  // unsigned bv -> float
	OFToS  // float -> signed bv (RTZ), aux = width
	OFToU  // float -> unsigned bv (RTZ), aux = width
	OFToF  // float -> float (other precision)
	OBToF  // IEEE bits -> float
	OUF    // uninterpreted function application: name in Name, args
	OFAbs
)

type Term struct {
	Op   Op
	Sort Sort
	A    [3]*Term
	Args []*Term // for OUF only
	Aux  uint32
	C    uint64 // constant payload (bv value, bool 0/1, float bits)
	Name string // variable / UF name
	ID   int32
}

func (t *Term) IsConst() bool { return t.Op == OConst }
func (t *Term) IsTrue() bool  { return t.Op == OConst && t.Sort.K == SBool && t.C == 1 }
func (t *Term) IsFalse() bool { return t.Op == OConst && t.Sort.K == SBool && t.C == 0 }

type termKey struct {
	op      Op
	sort    Sort
	a, b, c int32
	aux     uint32
	cv      uint64
	name    string
}

type TermStore struct {
	tab    map[termKey]*Term
	nextID int32
	True   *Term
	False  *Term
	ufs    map[string]string // UF name -> declaration
	ufOrd  []string
	bitMemo map[*Term][]bitRef
	aff     map[*Term]*affine
	par     map[*Term]parity
	noGauss bool
}

func NewTermStore() *TermStore {
	ts := &TermStore{tab: make(map[termKey]*Term, 1<<12), ufs: map[string]string{}, bitMemo: map[*Term][]bitRef{}, aff: map[*Term]*affine{}, par: map[*Term]parity{}}
	ts.True = ts.Bool(true)
	ts.False = ts.Bool(false)
	return ts
}

func (ts *TermStore) mk(op Op, sort Sort, a, b, c *Term, aux uint32, cv uint64, name string) *Term {
	k := termKey{op: op, sort: sort, aux: aux, cv: cv, name: name, a: -1, b: -1, c: -1}
	if a != nil {
		k.a = a.ID
	}
	if b != nil {
		k.b = b.ID
	}
	if c != nil {
		k.c = c.ID
	}
	if t, ok := ts.tab[k]; ok {
		return t
	}
	t := &Term{Op: op, Sort: sort, A: [3]*Term{a, b, c}, Aux: aux, C: cv, Name: name, ID: ts.nextID}
	ts.nextID++
	ts.tab[k] = t
	return t
}

func mask(w uint8) uint64 {
	if w >= 64 {
		return ^uint64(0)
	}
	return (uint64(1) << w) - 1
}

func (ts *TermStore) Bool(b bool) *Term {
	var c uint64
	if b {
		c = 1
	}
	return ts.mk(OConst, BoolSort, nil, nil, nil, 0, c, "")
}

func (ts *TermStore) BVConst(w int, v uint64) *Term {
	return ts.mk(OConst, BV(w), nil, nil, nil, 0, v&mask(uint8(w)), "")
}

func (ts *TermStore) F64Const(f float64) *Term {
	return ts.mk(OConst, F64Sort, nil, nil, nil, 0, math.Float64bits(f), "")
}
func (ts *TermStore) F32Const(f float32) *Term {
	return ts.mk(OConst, F32Sort, nil, nil, nil, 0, uint64(math.Float32bits(f)), "")
}

func (ts *TermStore) Var(name string, s Sort) *Term {
	return ts.mk(OVar, s, nil, nil, nil, 0, 0, name)
}

// sign-extend a w-bit constant to int64
func sext(v uint64, w uint8) int64 {
	if w >= 64 {
		return int64(v)
	}
	sh := 64 - w
	return int64(v<<sh) >> sh
}

func (t *Term) F64() float64 {
	if t.Sort.K == SF32 {
		return float64(math.Float32frombits(uint32(t.C)))
	}
	return math.Float64frombits(t.C)
}

func (ts *TermStore) fconst(s Sort, f float64) *Term {
	if s.K == SF32 {
		return ts.F32Const(float32(f))
	}
	return ts.F64Const(f)
}

// ---- boolean

func (ts *TermStore) Not(a *Term) *Term {
	if a.IsConst() {
		return ts.Bool(a.C == 0)
	}
	if a.Op == ONot {
		return a.A[0]
	}
	return ts.mk(ONot, BoolSort, a, nil, nil, 0, 0, "")
}

func (ts *TermStore) And(a, b *Term) *Term {
	if a.IsConst() {
		if a.C == 0 {
			return a
		}
		return b
	}
	if b.IsConst() {
		if b.C == 0 {
			return b
		}
		return a
	}
	if a == b {
		return a
	}
	return ts.mk(OAnd, BoolSort, a, b, nil, 0, 0, "")
}

func (ts *TermStore) Or(a, b *Term) *Term {
	if a.IsConst() {
		if a.C == 1 {
			return a
		}
		return b
	}
	if b.IsConst() {
		if b.C == 1 {
			return b
		}
		return a
	}
	if a == b {
		return a
	}
	return ts.mk(OOr, BoolSort, a, b, nil, 0, 0, "")
}

func (ts *TermStore) Eq(a, b *Term) *Term {
	if a == b && a.Sort.K != SF32 && a.Sort.K != SF64 {
		return ts.True
	}
	if a.Sort != b.Sort {
		panic(fmt.Sprintf("Eq sort mismatch %v %v", a.Sort, b.Sort))
	}
	if a.Sort.K == SF32 || a.Sort.K == SF64 {
		return ts.FCmp(OFEq, a, b)
	}
	if a.IsConst() && b.IsConst() {
		return ts.Bool(a.C == b.C)
	}
	if a.Sort.K == SBool {
		if a.IsConst() {
			if a.C == 1 {
				return b
			}
			return ts.Not(b)
		}
		if b.IsConst() {
			if b.C == 1 {
				return a
			}
			return ts.Not(a)
		}
	}
	if len(ts.par) > 0 {
		if r, ok := ts.parEq(a, b); ok {
			return r
		}
	}
	if a.ID > b.ID {
		a, b = b, a
	}
	if b.IsConst() && a.Sort.K == SBV && deepConstIte(a) {
		return ts.mapIte(a, func(l *Term) *Term { return ts.Bool(l.C == b.C) })
	}
	if a.IsConst() && b.Sort.K == SBV && deepConstIte(b) {
		return ts.mapIte(b, func(l *Term) *Term { return ts.Bool(l.C == a.C) })
	}
	// (ite c x y) == const simplification when x,y const
	if b.IsConst() || a.IsConst() {
		k, o := a, b
		if b.IsConst() {
			k, o = b, a
		}
		if o.Op == OIte && o.A[1].IsConst() && o.A[2].IsConst() {
			e1 := o.A[1].C == k.C
			e2 := o.A[2].C == k.C
			switch {
			case e1 && e2:
				return ts.True
			case e1 && !e2:
				return o.A[0]
			case !e1 && e2:
				return ts.Not(o.A[0])
			default:
				return ts.False
			}
		}
	}
	return ts.mk(OEq, BoolSort, a, b, nil, 0, 0, "")
}

func (ts *TermStore) Ite(c, a, b *Term) *Term {
	if c.IsConst() {
		if c.C == 1 {
			return a
		}
		return b
	}
	if a == b {
		return a
	}
	if a.Sort != b.Sort {
		panic(fmt.Sprintf("Ite sort mismatch %v %v", a.Sort, b.Sort))
	}
	if a.Op == OIte && a.A[0] == c {
		a = a.A[1]
	}
	if b.Op == OIte && b.A[0] == c {
		b = b.A[2]
	}
	if a == b {
		return a
	}
	if a.Sort.K == SBool {
		if a.IsTrue() && b.IsFalse() {
			return c
		}
		if a.IsFalse() && b.IsTrue() {
			return ts.Not(c)
		}
		if a.IsTrue() {
			return ts.Or(c, b)
		}
		if b.IsFalse() {
			return ts.And(c, a)
		}
		if a.IsFalse() {
			return ts.And(ts.Not(c), b)
		}
		if b.IsTrue() {
			return ts.Or(ts.Not(c), a)
		}
	}
	return ts.mk(OIte, a.Sort, c, a, b, 0, 0, "")
}

// ---- bit-vectors

func (ts *TermStore) Bin(op Op, a, b *Term) *Term {
	if a.Sort != b.Sort || a.Sort.K != SBV {
		panic(fmt.Sprintf("Bin %d sort mismatch %v %v", op, a.Sort, b.Sort))
	}
	w := a.Sort.W
	if a.IsConst() && b.IsConst() {
		x, y := a.C, b.C
		var r uint64
		switch op {
		case OAdd:
			r = x + y
		case OSub:
			r = x - y
		case OMul:
			r = x * y
		case OUDiv:
			if y == 0 {
				r = mask(w)
			} else {
				r = x / y
			}
		case OURem:
			if y == 0 {
				r = x
			} else {
				r = x % y
			}
		case OSDiv:
			sx, sy := sext(x, w), sext(y, w)
			if sy == 0 {
				if sx < 0 {
					r = 1
				} else {
					r = mask(w)
				}
			} else if sy == -1 {
				r = uint64(-sx)
			} else {
				r = uint64(sx / sy)
			}
		case OSRem:
			sx, sy := sext(x, w), sext(y, w)
			if sy == 0 {
				r = x
			} else if sy == -1 {
				r = 0
			} else {
				r = uint64(sx % sy)
			}
		case OBAnd:
			r = x & y
		case OBOr:
			r = x | y
		case OBXor:
			r = x ^ y
		case OShl:
			if y >= uint64(w) {
				r = 0
			} else {
				r = x << y
			}
		case OLShr:
			if y >= uint64(w) {
				r = 0
			} else {
				r = x >> y
			}
		case OAShr:
			sx := sext(x, w)
			if y >= uint64(w) {
				if sx < 0 {
					r = mask(w)
				} else {
					r = 0
				}
			} else {
				r = uint64(sx >> y)
			}
		default:
			panic("bad bin op")
		}
		return ts.BVConst(int(w), r)
	}
	if b.IsConst() && deepConstIte(a) {
		return ts.mapIte(a, func(l *Term) *Term { return ts.Bin(op, l, b) })
	}
	if a.IsConst() && deepConstIte(b) {
		return ts.mapIte(b, func(l *Term) *Term { return ts.Bin(op, a, l) })
	}
	// lift over (ite c k1 k2) with constant branches when the other operand is constant
	if a.Op == OIte && b.IsConst() && a.A[1].IsConst() && a.A[2].IsConst() {
		return ts.Ite(a.A[0], ts.Bin(op, a.A[1], b), ts.Bin(op, a.A[2], b))
	}
	if b.Op == OIte && a.IsConst() && b.A[1].IsConst() && b.A[2].IsConst() {
		return ts.Ite(b.A[0], ts.Bin(op, a, b.A[1]), ts.Bin(op, a, b.A[2]))
	}
	// identities
	switch op {
	case OAdd, OBOr, OBXor:
		if a.IsConst() && a.C == 0 {
			return b
		}
		if b.IsConst() && b.C == 0 {
			return a
		}
	case OSub, OShl, OLShr, OAShr:
		if b.IsConst() && b.C == 0 {
			return a
		}
	case OMul:
		if a.IsConst() && a.C == 1 {
			return b
		}
		if b.IsConst() && b.C == 1 {
			return a
		}
		if (a.IsConst() && a.C == 0) || (b.IsConst() && b.C == 0) {
			return ts.BVConst(int(w), 0)
		}
	case OBAnd:
		if (a.IsConst() && a.C == 0) || (b.IsConst() && b.C == 0) {
			return ts.BVConst(int(w), 0)
		}
		if a.IsConst() && a.C == mask(w) {
			return b
		}
		if b.IsConst() && b.C == mask(w) {
			return a
		}
	}
	switch op {
	case OAdd, OMul, OBAnd, OBOr, OBXor:
		if a.ID > b.ID {
			a, b = b, a
		}
	}
	t := ts.mk(op, a.Sort, a, b, nil, 0, 0, "")
	switch op {
	case OBAnd, OBOr, OBXor, OShl, OLShr:
		return ts.normBits(t)
	}
	return t
}

func (ts *TermStore) Cmp(op Op, a, b *Term) *Term {
	if a.Sort != b.Sort || a.Sort.K != SBV {
		panic(fmt.Sprintf("Cmp sort mismatch %v %v", a.Sort, b.Sort))
	}
	w := a.Sort.W
	if a.IsConst() && b.IsConst() {
		var r bool
		switch op {
		case OULt:
			r = a.C < b.C
		case OULe:
			r = a.C <= b.C
		case OSLt:
			r = sext(a.C, w) < sext(b.C, w)
		case OSLe:
			r = sext(a.C, w) <= sext(b.C, w)
		}
		return ts.Bool(r)
	}
	if a == b {
		return ts.Bool(op == OULe || op == OSLe)
	}
	if b.IsConst() && deepConstIte(a) {
		return ts.mapIte(a, func(l *Term) *Term { return ts.Cmp(op, l, b) })
	}
	if a.IsConst() && deepConstIte(b) {
		return ts.mapIte(b, func(l *Term) *Term { return ts.Cmp(op, a, l) })
	}
	if a.Op == OIte && b.IsConst() && a.A[1].IsConst() && a.A[2].IsConst() {
		return ts.Ite(a.A[0], ts.Cmp(op, a.A[1], b), ts.Cmp(op, a.A[2], b))
	}
	if b.Op == OIte && a.IsConst() && b.A[1].IsConst() && b.A[2].IsConst() {
		return ts.Ite(b.A[0], ts.Cmp(op, a, b.A[1]), ts.Cmp(op, a, b.A[2]))
	}
	return ts.mk(op, BoolSort, a, b, nil, 0, 0, "")
}

func (ts *TermStore) BNot(a *Term) *Term {
	return ts.Bin(OBXor, a, ts.BVConst(int(a.Sort.W), mask(a.Sort.W)))
}

func (ts *TermStore) Neg(a *Term) *Term {
	return ts.Bin(OSub, ts.BVConst(int(a.Sort.W), 0), a)
}

func (ts *TermStore) Zext(a *Term, w int) *Term {
	if int(a.Sort.W) == w {
		return a
	}
	if deepConstIte(a) {
		return ts.mapIte(a, func(l *Term) *Term { return ts.Zext(l, w) })
	}
	if a.IsConst() {
		return ts.BVConst(w, a.C)
	}
	return ts.normBits(ts.mk(OZext, BV(w), a, nil, nil, uint32(w), 0, ""))
}

func (ts *TermStore) Sext(a *Term, w int) *Term {
	if int(a.Sort.W) == w {
		return a
	}
	if a.IsConst() {
		return ts.BVConst(w, uint64(sext(a.C, a.Sort.W)))
	}
	return ts.mk(OSext, BV(w), a, nil, nil, uint32(w), 0, "")
}

func (ts *TermStore) Extract(a *Term, hi, lo int) *Term {
	w := hi - lo + 1
	if lo == 0 && w == int(a.Sort.W) {
		return a
	}
	if deepConstIte(a) {
		return ts.mapIte(a, func(l *Term) *Term { return ts.Extract(l, hi, lo) })
	}
	if a.IsConst() {
		return ts.BVConst(w, a.C>>uint(lo))
	}
	if (a.Op == OZext || a.Op == OSext) && lo == 0 && w <= int(a.A[0].Sort.W) {
		return ts.Extract(a.A[0], hi, 0)
	}
	return ts.normBits(ts.mk(OExtr, BV(w), a, nil, nil, uint32(hi)<<8|uint32(lo), 0, ""))
}

func (ts *TermStore) Concat(a, b *Term) *Term {
	w := int(a.Sort.W) + int(b.Sort.W)
	if a.IsConst() && b.IsConst() {
		return ts.BVConst(w, a.C<<b.Sort.W|b.C)
	}
	return ts.normBits(ts.mk(OConcat, BV(w), a, b, nil, 0, 0, ""))
}

// ---- floats

func (ts *TermStore) FBin(op Op, a, b *Term) *Term {
	if a.Sort != b.Sort {
		panic("FBin sort mismatch")
	}
	if a.IsConst() && b.IsConst() {
		x, y := a.F64(), b.F64()
		if a.Sort.K == SF32 {
			fx, fy := float32(x), float32(y)
			var r float32
			switch op {
			case OFAdd:
				r = fx + fy
			case OFSub:
				r = fx - fy
			case OFMul:
				r = fx * fy
			case OFDiv:
				r = fx / fy
			}
			return ts.F32Const(r)
		}
		var r float64
		switch op {
		case OFAdd:
			r = x + y
		case OFSub:
			r = x - y
		case OFMul:
			r = x * y
		case OFDiv:
			r = x / y
		}
		return ts.F64Const(r)
	}
	if a.IsConst() && b.Op == OIte && iteConstLeaves(b, 0) {
		return ts.Ite(b.A[0], ts.FBin(op, a, b.A[1]), ts.FBin(op, a, b.A[2]))
	}
	if b.IsConst() && a.Op == OIte && iteConstLeaves(a, 0) {
		return ts.Ite(a.A[0], ts.FBin(op, a.A[1], b), ts.FBin(op, a.A[2], b))
	}
	return ts.mk(op, a.Sort, a, b, nil, 0, 0, "")
}

// mapIte applies f to every (constant) leaf of the ite-tree t and rebuilds the tree (iteratively
// along the else-spine, so that 256-entry lookup tables do not recurse deeply).
func (ts *TermStore) mapIte(t *Term, f func(*Term) *Term) *Term {
	// collect the spine: conds and then-branches
	var conds, thens []*Term
	cur := t
	for cur.Op == OIte {
		conds = append(conds, cur.A[0])
		thens = append(thens, cur.A[1])
		cur = cur.A[2]
	}
	res := f(cur)
	for i := len(conds) - 1; i >= 0; i-- {
		var th *Term
		if thens[i].Op == OIte {
			th = ts.mapIte(thens[i], f)
		} else {
			th = f(thens[i])
		}
		res = ts.Ite(conds[i], th, res)
	}
	return res
}

// deepConstIte: an ite-tree with more than one level whose leaves are constants
func deepConstIte(t *Term) bool {
	return t.Op == OIte && (t.A[1].Op == OIte || t.A[2].Op == OIte) && iteConstLeaves(t, 0)
}

// iteConstLeaves: t is an ite-tree (bounded size) whose leaves are all constants.
func iteConstLeaves(t *Term, depth int) bool {
	for n := 0; ; n++ {
		if t.IsConst() {
			return true
		}
		if t.Op != OIte || depth > 16 || n > 4096 {
			return false
		}
		if !t.A[1].IsConst() && !iteConstLeaves(t.A[1], depth+1) {
			return false
		}
		t = t.A[2]
	}
}

func (ts *TermStore) FNeg(a *Term) *Term {
	if a.IsConst() {
		return ts.fconst(a.Sort, -a.F64())
	}
	return ts.mk(OFNeg, a.Sort, a, nil, nil, 0, 0, "")
}

func (ts *TermStore) FAbs(a *Term) *Term {
	if a.IsConst() {
		return ts.fconst(a.Sort, math.Abs(a.F64()))
	}
	return ts.mk(OFAbs, a.Sort, a, nil, nil, 0, 0, "")
}

func (ts *TermStore) FCmp(op Op, a, b *Term) *Term {
	if a.IsConst() && b.IsConst() {
		x, y := a.F64(), b.F64()
		switch op {
		case OFLt:
			return ts.Bool(x < y)
		case OFLe:
			return ts.Bool(x <= y)
		case OFEq:
			return ts.Bool(x == y)
		}
	}
	if a.IsConst() && b.Op == OIte && iteConstLeaves(b, 0) {
		return ts.Ite(b.A[0], ts.FCmp(op, a, b.A[1]), ts.FCmp(op, a, b.A[2]))
	}
	if b.IsConst() && a.Op == OIte && iteConstLeaves(a, 0) {
		return ts.Ite(a.A[0], ts.FCmp(op, a.A[1], b), ts.FCmp(op, a.A[2], b))
	}
	return ts.mk(op, BoolSort, a, b, nil, 0, 0, "")
}

func (ts *TermStore) FIsNaN(a *Term) *Term {
	if a.IsConst() {
		return ts.Bool(math.IsNaN(a.F64()))
	}
	if a.Op == OIte && iteConstLeaves(a, 0) {
		return ts.Ite(a.A[0], ts.FIsNaN(a.A[1]), ts.FIsNaN(a.A[2]))
	}
	return ts.mk(OFIsNaN, BoolSort, a, nil, nil, 0, 0, "")
}

func (ts *TermStore) FIsInf(a *Term) *Term {
	if a.IsConst() {
		return ts.Bool(math.IsInf(a.F64(), 0))
	}
	if a.Op == OIte && iteConstLeaves(a, 0) {
		return ts.Ite(a.A[0], ts.FIsInf(a.A[1]), ts.FIsInf(a.A[2]))
	}
	return ts.mk(OFIsInf, BoolSort, a, nil, nil, 0, 0, "")
}

func (ts *TermStore) IntToF(a *Term, signed bool, s Sort) *Term {
	if a.IsConst() {
		if signed {
			return ts.fconst(s, float64(sext(a.C, a.Sort.W)))
		}
		return ts.fconst(s, float64(a.C))
	}
	op := OUToF
	if signed {
		op = OSToF
	}
	return ts.mk(op, s, a, nil, nil, 0, 0, "")
}

func (ts *TermStore) FToInt(a *Term, signed bool, w int) *Term {
	if a.IsConst() {
		f := a.F64()
		if signed {
			return ts.BVConst(w, uint64(int64(f)))
		}
		return ts.BVConst(w, uint64(f))
	}
	op := OFToU
	if signed {
		op = OFToS
	}
	return ts.mk(op, BV(w), a, nil, nil, uint32(w), 0, "")
}

func (ts *TermStore) FToF(a *Term, s Sort) *Term {
	if a.Sort == s {
		return a
	}
	if a.IsConst() {
		return ts.fconst(s, a.F64())
	}
	return ts.mk(OFToF, s, a, nil, nil, 0, 0, "")
}

func (ts *TermStore) BitsToF(a *Term, s Sort) *Term {
	if a.IsConst() {
		if s.K == SF32 {
			return ts.F32Const(math.Float32frombits(uint32(a.C)))
		}
		return ts.F64Const(math.Float64frombits(a.C))
	}
	return ts.mk(OBToF, s, a, nil, nil, 0, 0, "")
}

// UF builds an application of an uninterpreted function.
func (ts *TermStore) UF(name string, ret Sort, args ...*Term) *Term {
	if _, ok := ts.ufs[name]; !ok {
		var sb strings.Builder
		fmt.Fprintf(&sb, "(declare-fun %s (", name)
		for i, a := range args {
			if i > 0 {
				sb.WriteByte(' ')
			}
			sb.WriteString(a.Sort.String())
		}
		fmt.Fprintf(&sb, ") %s)", ret.String())
		ts.ufs[name] = sb.String()
		ts.ufOrd = append(ts.ufOrd, name)
	}
	var sb strings.Builder
	sb.WriteString(name)
	for _, a := range args {
		fmt.Fprintf(&sb, ",%d", a.ID)
	}
	k := termKey{op: OUF, sort: ret, name: sb.String(), a: -1, b: -1, c: -1}
	if t, ok := ts.tab[k]; ok {
		return t
	}
	t := &Term{Op: OUF, Sort: ret, Args: append([]*Term(nil), args...), Name: name, ID: ts.nextID}
	ts.nextID++
	ts.tab[k] = t
	return t
}

// ---------------------------------------------------------------------------
// SMT-LIB printing

func constSMT(t *Term) string {
	switch t.Sort.K {
	case SBool:
		if t.C == 1 {
			return "true"
		}
		return "false"
	case SBV:
		w := int(t.Sort.W)
		if w%4 == 0 {
			return fmt.Sprintf("#x%0*x", w/4, t.C)
		}
		return fmt.Sprintf("#b%0*b", w, t.C)
	case SF64:
		b := t.C
		return fmt.Sprintf("(fp #b%b #b%011b #x%013x)", b>>63, (b>>52)&0x7ff, b&((1<<52)-1))
	case SF32:
		b := t.C
		return fmt.Sprintf("(fp #b%b #x%02x #b%023b)", (b>>31)&1, (b>>23)&0xff, b&((1<<23)-1))
	}
	return "?"
}

var opNames = map[Op]string{
	ONot: "not", OAnd: "and", OOr: "or", OEq: "=", OIte: "ite",
	OAdd: "bvadd", OSub: "bvsub", OMul: "bvmul", OUDiv: "bvudiv", OSDiv: "bvsdiv",
	OURem: "bvurem", OSRem: "bvsrem", OBAnd: "bvand", OBOr: "bvor", OBXor: "bvxor",
	OShl: "bvshl", OLShr: "bvlshr", OAShr: "bvashr", OULt: "bvult", OULe: "bvule",
	OSLt: "bvslt", OSLe: "bvsle", OConcat: "concat",
	OFAdd: "fp.add RNE", OFSub: "fp.sub RNE", OFMul: "fp.mul RNE", OFDiv: "fp.div RNE",
	OFNeg: "fp.neg", OFLt: "fp.lt", OFLe: "fp.leq", OFEq: "fp.eq", OFIsNaN: "fp.isNaN",
	OFIsInf: "fp.isInfinite", OFAbs: "fp.abs",
}

func ref(t *Term) string {
	if t.Op == OConst {
		return constSMT(t)
	}
	if t.Op == OVar {
		return t.Name
	}
	return fmt.Sprintf("t%d", t.ID)
}

// body returns the SMT expression of t in terms of refs to its arguments.
func body(t *Term) string {
	switch t.Op {
	case OConst:
		return constSMT(t)
	case OVar:
		return t.Name
	case OZext:
		return fmt.Sprintf("((_ zero_extend %d) %s)", int(t.Aux)-int(t.A[0].Sort.W), ref(t.A[0]))
	case OSext:
		return fmt.Sprintf("((_ sign_extend %d) %s)", int(t.Aux)-int(t.A[0].Sort.W), ref(t.A[0]))
	case OExtr:
		return fmt.Sprintf("((_ extract %d %d) %s)", t.Aux>>8, t.Aux&0xff, ref(t.A[0]))
	case OSToF, OFToF:
		eb, sb := 11, 53
		if t.Sort.K == SF32 {
			eb, sb = 8, 24
		}
		return fmt.Sprintf("((_ to_fp %d %d) RNE %s)", eb, sb, ref(t.A[0]))
	case OUToF:
		eb, sb := 11, 53
		if t.Sort.K == SF32 {
			eb, sb = 8, 24
		}
		return fmt.Sprintf("((_ to_fp_unsigned %d %d) RNE %s)", eb, sb, ref(t.A[0]))
	case OBToF:
		eb, sb := 11, 53
		if t.Sort.K == SF32 {
			eb, sb = 8, 24
		}
		return fmt.Sprintf("((_ to_fp %d %d) %s)", eb, sb, ref(t.A[0]))
	case OFToS:
		return fmt.Sprintf("((_ fp.to_sbv %d) RTZ %s)", t.Aux, ref(t.A[0]))
	case OFToU:
		return fmt.Sprintf("((_ fp.to_ubv %d) RTZ %s)", t.Aux, ref(t.A[0]))
	case OUF:
		if len(t.Args) == 0 {
			return t.Name
		}
		var sb strings.Builder
		sb.WriteString("(" + t.Name)
		for _, a := range t.Args {
			sb.WriteString(" " + ref(a))
		}
		sb.WriteString(")")
		return sb.String()
	}
	n := opNames[t.Op]
	if n == "" {
		panic(fmt.Sprintf("no SMT name for op %d", t.Op))
	}
	var sb strings.Builder
	sb.WriteString("(" + n)
	for _, a := range t.A {
		if a != nil {
			sb.WriteString(" " + ref(a))
		}
	}
	sb.WriteString(")")
	return sb.String()
}
