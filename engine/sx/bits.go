package sx

// Bit-slice normalisation. Byte-level code moves integers through shifts, masks and ors (varint
// encode/decode, LittleEndian.PutUint64/Uint64, 7-bit groups). bitsOf tracks, per result bit, which bit of
// which opaque source term it is (or a constant); when every bit of a term is the contiguous run of one
// source (optionally zero-extended) the term is rewritten to extract/zero_extend of that source. A value
// that was split and reassembled therefore becomes syntactically the original term again, and the
// solver never sees the round trip.

type bitRef struct {
	src *Term // nil for constants
	idx int16
	c   int8 // constant value when src == nil
}

func (ts *TermStore) bitsOf(t *Term) []bitRef {
	if t.Sort.K != SBV {
		return nil
	}
	if bs, ok := ts.bitMemo[t]; ok {
		return bs
	}
	w := int(t.Sort.W)
	bs := make([]bitRef, w)
	opaque := func() {
		for i := range bs {
			bs[i] = bitRef{src: t, idx: int16(i)}
		}
	}
	zero := bitRef{}
	switch t.Op {
	case OConst:
		for i := range bs {
			bs[i] = bitRef{c: int8(t.C >> uint(i) & 1)}
		}
	case OExtr:
		hi, lo := int(t.Aux>>8), int(t.Aux&0xff)
		a := ts.bitsOf(t.A[0])
		copy(bs, a[lo:hi+1])
	case OConcat:
		b := ts.bitsOf(t.A[1])
		a := ts.bitsOf(t.A[0])
		copy(bs, b)
		copy(bs[len(b):], a)
	case OZext:
		a := ts.bitsOf(t.A[0])
		copy(bs, a)
		for i := len(a); i < w; i++ {
			bs[i] = zero
		}
	case OShl, OLShr:
		if !t.A[1].IsConst() {
			opaque()
			break
		}
		k := int(t.A[1].C)
		if t.A[1].C >= uint64(w) {
			k = w
		}
		a := ts.bitsOf(t.A[0])
		for i := range bs {
			j := i - k
			if t.Op == OLShr {
				j = i + k
			}
			if j >= 0 && j < w {
				bs[i] = a[j]
			} else {
				bs[i] = zero
			}
		}
	case OBAnd, OBOr, OBXor:
		a, b := ts.bitsOf(t.A[0]), ts.bitsOf(t.A[1])
		for i := range bs {
			x, y := a[i], b[i]
			if x.src != nil && y.src == nil {
				x, y = y, x
			}
			switch {
			case x.src == nil && y.src == nil:
				var v int8
				switch t.Op {
				case OBAnd:
					v = x.c & y.c
				case OBOr:
					v = x.c | y.c
				default:
					v = x.c ^ y.c
				}
				bs[i] = bitRef{c: v}
			case x.src == nil: // x constant, y symbolic
				switch {
				case t.Op == OBAnd && x.c == 0:
					bs[i] = zero
				case t.Op == OBAnd, t.Op == OBOr && x.c == 0, t.Op == OBXor && x.c == 0:
					bs[i] = y
				case t.Op == OBOr:
					bs[i] = bitRef{c: 1}
				default: // xor with 1: negated bit
					bs[i] = bitRef{src: t, idx: int16(i)}
				}
			case x == y:
				if t.Op == OBXor {
					bs[i] = zero
				} else {
					bs[i] = x
				}
			default:
				bs[i] = bitRef{src: t, idx: int16(i)}
			}
		}
	default:
		opaque()
		return bs // not memoised: cheap to rebuild, and most terms are of this kind
	}
	ts.bitMemo[t] = bs
	return bs
}

// normBits rewrites t when its bits are constants or one contiguous slice of a single source.
func (ts *TermStore) normBits(t *Term) *Term {
	if t.Sort.K != SBV || t.Sort.W > 64 {
		return t
	}
	bs := ts.bitsOf(t)
	w := len(bs)
	// all constant?
	allConst := true
	var cv uint64
	for i, b := range bs {
		if b.src != nil {
			allConst = false
			break
		}
		cv |= uint64(b.c) << uint(i)
	}
	if allConst {
		return ts.BVConst(w, cv)
	}
	// a run of one source from bit 0, then zeros
	s := bs[0].src
	if s == nil || s == t {
		return t
	}
	lo := int(bs[0].idx)
	n := 0
	for n < w && bs[n].src == s && int(bs[n].idx) == lo+n {
		n++
	}
	for i := n; i < w; i++ {
		if bs[i].src != nil || bs[i].c != 0 {
			return t
		}
	}
	var r *Term
	if lo == 0 && n == int(s.Sort.W) {
		r = s
	} else {
		r = ts.mk(OExtr, BV(n), s, nil, nil, uint32(lo+n-1)<<8|uint32(lo), 0, "")
	}
	if n < w {
		r = ts.mk(OZext, BV(w), r, nil, nil, uint32(w), 0, "")
	}
	return r
}
