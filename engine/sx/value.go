package sx

import (
	"strconv"
	"fmt"
	"go/types"
	"strings"

	"golang.org/x/tools/go/ssa"
)

// Value is one of:
//   *Term      bool / integer / float scalar (possibly symbolic)
//   Str        string
//   Ptr        pointer (concrete)
//   Slice      slice header (concrete offsets)
//   *Agg       struct or array value
//   MapV       map reference
//   ChanV      channel reference
//   FuncV      function value
//   Iface      interface value
//   Tuple      multiple results
//   *IterV     range iterator
//   Opaque     value of a type the engine does not model (may be stored, not used)
type Value interface{}

// Str is a Go string; B == nil means the concrete string S, otherwise B holds
// one 8-bit term per byte (length always concrete).
// Num != nil marks the decimal rendering of the symbolic integer Num ("numeric string").
type Str struct {
	S       string
	B       []*Term
	Num     *Term // 64-bit signed
	FloatOf *Term // opaque text of a symbolic float
}

func (s Str) Len() int {
	if s.B != nil {
		return len(s.B)
	}
	return len(s.S)
}

func (s Str) IsConcrete() bool { return s.B == nil && s.Num == nil && s.FloatOf == nil }

// Agg is a struct or array value. When it lives in memory it has identity.
type Agg struct {
	V []Value
	// for []byte backing arrays created by vfNumStr / vfFloatStr
	Num     *Term
	FloatOf *Term
}

// Ptr points at slot Idx of Base; Base == nil is the nil pointer.
type Ptr struct {
	Base *Agg
	Idx  int
	// Sym != nil: the element Base.V[Idx+Sym] with Sym in [0,N) (symbolic index, scalar elements)
	Sym *Term
	N   int
	// Glob is set for poisoned globals of packages whose init was not run
	Poison string
}

func (p Ptr) IsNil() bool { return p.Base == nil }

type Slice struct {
	Arr      *Agg
	Off      int
	Len, Cap int
	Nil      bool
}

type mapEntry struct {
	K, V    Value
	Deleted bool
}

type MapObj struct {
	Entries []*mapEntry
	N       int // live entries
	ID      int
}

type MapV struct{ M *MapObj }

type ChanObj struct {
	items       []*chanItem
	Cap         int
	Closed      bool
	ID          int
	waiters     []*chanWaiter // receivers parked on this channel (plain receive or select)
	lastTaken   *chanItem
	Timer       bool // a time.After channel
}

// chanWaiter: one parked receiver. A receiver parked in a select is registered on every channel it can
// receive from; once a sender has deposited a value for it (a rendezvous on an unbuffered channel) it
// is claimed and no other sender may count on it.
type chanWaiter struct {
	claimed bool
	chans   []*ChanObj
}

func (ch *ChanObj) freeWaiter() *chanWaiter {
	for _, w := range ch.waiters {
		if !w.claimed {
			return w
		}
	}
	return nil
}

func (w *chanWaiter) park() {
	for _, c := range w.chans {
		c.waiters = append(c.waiters, w)
	}
}

func (w *chanWaiter) leave() {
	for _, c := range w.chans {
		for i, x := range c.waiters {
			if x == w {
				c.waiters = append(c.waiters[:i:i], c.waiters[i+1:]...)
				break
			}
		}
	}
}

type ChanV struct{ C *ChanObj }

type FuncV struct {
	Fn      *ssa.Function
	Builtin *ssa.Builtin
	Env     []Value
	// result of a call into unmodelled code (method on an Opaque receiver)
	isOpaque  bool
	opaqueRes Value
}

func (f FuncV) IsNil() bool { return f.Fn == nil && f.Builtin == nil }

type Iface struct {
	T types.Type // dynamic type; nil => nil interface
	V Value
}

type Tuple []Value

type Opaque struct{ What string }

type IterV struct {
	// string iteration
	str   Str
	isStr bool
	pos   int
	// map iteration
	m     *MapObj
	order []int
	k     int
}

// ---------------------------------------------------------------------------

func (in *Interp) zero(t types.Type) Value {
	switch t := t.Underlying().(type) {
	case *types.Basic:
		switch {
		case t.Info()&types.IsBoolean != 0:
			return in.ts.False
		case t.Info()&types.IsInteger != 0:
			return in.ts.BVConst(in.width(t), 0)
		case t.Kind() == types.Float64 || t.Kind() == types.UntypedFloat:
			return in.ts.F64Const(0)
		case t.Kind() == types.Float32:
			return in.ts.F32Const(0)
		case t.Info()&types.IsString != 0:
			return Str{}
		case t.Kind() == types.UnsafePointer:
			return Ptr{}
		case t.Kind() == types.UntypedNil:
			return Ptr{}
		case t.Kind() == types.Complex128 || t.Kind() == types.Complex64:
			return Opaque{"complex"}
		}
	case *types.Pointer:
		return Ptr{}
	case *types.Slice:
		return Slice{Nil: true}
	case *types.Map:
		return MapV{}
	case *types.Chan:
		return ChanV{}
	case *types.Signature:
		return FuncV{}
	case *types.Interface:
		return Iface{}
	case *types.Struct:
		a := &Agg{V: make([]Value, t.NumFields())}
		for i := range a.V {
			a.V[i] = in.zero(t.Field(i).Type())
		}
		return a
	case *types.Array:
		n := int(t.Len())
		a := &Agg{V: make([]Value, n)}
		if n > 0 {
			if isScalarType(t.Elem()) {
				z := in.zero(t.Elem())
				for i := range a.V {
					a.V[i] = z
				}
			} else {
				for i := range a.V {
					a.V[i] = in.zero(t.Elem())
				}
			}
		}
		return a
	case *types.Tuple:
		tu := make(Tuple, t.Len())
		for i := range tu {
			tu[i] = in.zero(t.At(i).Type())
		}
		return tu
	}
	panic(abortf("zero: unsupported type %v", t))
}

func isScalarType(t types.Type) bool {
	switch t.Underlying().(type) {
	case *types.Struct, *types.Array:
		return false
	}
	return true
}

func (in *Interp) width(t *types.Basic) int {
	switch t.Kind() {
	case types.Int8, types.Uint8:
		return 8
	case types.Int16, types.Uint16:
		return 16
	case types.Int32, types.Uint32:
		return 32
	case types.Bool, types.UntypedBool:
		return 1
	}
	return 64
}

func isSigned(t types.Type) bool {
	b, ok := t.Underlying().(*types.Basic)
	if !ok {
		return false
	}
	return b.Info()&types.IsUnsigned == 0 && b.Info()&types.IsInteger != 0
}

// copyVal makes a deep copy of aggregate values (value semantics).
func copyVal(v Value) Value {
	if a, ok := v.(*Agg); ok {
		n := &Agg{V: make([]Value, len(a.V)), Num: a.Num}
		for i, e := range a.V {
			if _, ok := e.(*Agg); ok {
				n.V[i] = copyVal(e)
			} else {
				n.V[i] = e
			}
		}
		return n
	}
	return v
}

// storeSlot writes v into base.V[idx] preserving the identity of nested aggregates.
func storeSlot(base *Agg, idx int, v Value) {
	if src, ok := v.(*Agg); ok {
		if dst, ok := base.V[idx].(*Agg); ok && len(dst.V) == len(src.V) {
			if dst == src {
				return
			}
			for i := range src.V {
				storeSlot(dst, i, src.V[i])
			}
			dst.Num = src.Num
			return
		}
		base.V[idx] = copyVal(src)
		return
	}
	base.V[idx] = v
}

func loadSlot(base *Agg, idx int) Value {
	return copyVal(base.V[idx])
}

// ---------------------------------------------------------------------------
// strings

func (in *Interp) strBytes(s Str) []*Term {
	if s.Num != nil || s.FloatOf != nil {
		panic(opaqueUse("byte-level use of a numeric string"))
	}
	if s.B != nil {
		return s.B
	}
	b := make([]*Term, len(s.S))
	for i := 0; i < len(s.S); i++ {
		b[i] = in.ts.BVConst(8, uint64(s.S[i]))
	}
	return b
}

func (in *Interp) mkStr(b []*Term) Str {
	for _, t := range b {
		if !t.IsConst() {
			return Str{B: b}
		}
	}
	var sb strings.Builder
	for _, t := range b {
		sb.WriteByte(byte(t.C))
	}
	return Str{S: sb.String()}
}

func (in *Interp) strEq(a, b Str) *Term {
	if a.Num != nil || b.Num != nil || a.FloatOf != nil || b.FloatOf != nil {
		return in.numStrEq(a, b)
	}
	if a.Len() != b.Len() {
		return in.ts.False
	}
	if a.B == nil && b.B == nil {
		return in.ts.Bool(a.S == b.S)
	}
	ab, bb := in.strBytes(a), in.strBytes(b)
	r := in.ts.True
	for i := range ab {
		r = in.ts.And(r, in.ts.Eq(ab[i], bb[i]))
		if r.IsFalse() {
			return r
		}
	}
	return r
}

// strLess: lexicographic a < b as a term.
func (in *Interp) strLess(a, b Str) *Term {
	if a.B == nil && b.B == nil && a.Num == nil && b.Num == nil {
		return in.ts.Bool(a.S < b.S)
	}
	ab, bb := in.strBytes(a), in.strBytes(b)
	n := len(ab)
	if len(bb) < n {
		n = len(bb)
	}
	// build from the end
	res := in.ts.Bool(len(ab) < len(bb))
	for i := n - 1; i >= 0; i-- {
		lt := in.ts.Cmp(OULt, ab[i], bb[i])
		eq := in.ts.Eq(ab[i], bb[i])
		res = in.ts.Or(lt, in.ts.And(eq, res))
	}
	return res
}

func (in *Interp) strConcat(a, b Str) Str {
	if a.Num != nil || b.Num != nil {
		if a.Len() == 0 && a.Num == nil {
			return b
		}
		if b.Len() == 0 && b.Num == nil {
			return a
		}
		panic(opaqueUse("concatenation with a numeric string"))
	}
	if a.B == nil && b.B == nil {
		return Str{S: a.S + b.S}
	}
	if a.Len() == 0 {
		return b
	}
	if b.Len() == 0 {
		return a
	}
	ab, bb := in.strBytes(a), in.strBytes(b)
	r := make([]*Term, 0, len(ab)+len(bb))
	r = append(r, ab...)
	r = append(r, bb...)
	return Str{B: r}
}

func (in *Interp) strSlice(s Str, lo, hi int) Str {
	if s.Num != nil {
		panic(opaqueUse("slicing a numeric string"))
	}
	if s.B == nil {
		return Str{S: s.S[lo:hi]}
	}
	return in.mkStr(s.B[lo:hi])
}

// ---------------------------------------------------------------------------
// equality of arbitrary values (as a Bool term)

func (in *Interp) valEq(a, b Value) *Term {
	switch x := a.(type) {
	case *Term:
		y, ok := b.(*Term)
		if !ok {
			panic(abortf("valEq: %T vs %T", a, b))
		}
		return in.ts.Eq(x, y)
	case Str:
		return in.strEq(x, b.(Str))
	case Ptr:
		y := b.(Ptr)
		return in.ts.Bool(x.Base == y.Base && (x.Base == nil || x.Idx == y.Idx))
	case MapV:
		return in.ts.Bool(x.M == b.(MapV).M)
	case ChanV:
		return in.ts.Bool(x.C == b.(ChanV).C)
	case FuncV:
		y := b.(FuncV)
		return in.ts.Bool(x.IsNil() && y.IsNil())
	case Slice:
		y := b.(Slice)
		return in.ts.Bool(x.Nil && y.Nil)
	case Iface:
		y := b.(Iface)
		if x.T == nil || y.T == nil {
			return in.ts.Bool(x.T == nil && y.T == nil)
		}
		if !types.Identical(x.T, y.T) {
			return in.ts.False
		}
		return in.valEq(x.V, y.V)
	case *Agg:
		y := b.(*Agg)
		r := in.ts.True
		for i := range x.V {
			r = in.ts.And(r, in.valEq(x.V[i], y.V[i]))
		}
		return r
	case Opaque:
		panic(abortf("comparison of opaque value %s", x.What))
	}
	panic(abortf("valEq: unsupported %T", a))
}

func fmtVal(v Value) string {
	switch x := v.(type) {
	case *Term:
		if x.IsConst() {
			return constSMT(x)
		}
		return fmt.Sprintf("<sym t%d>", x.ID)
	case Str:
		if x.IsConcrete() {
			return fmt.Sprintf("%q", x.S)
		}
		return fmt.Sprintf("<symstr len %d>", x.Len())
	case nil:
		return "nil"
	}
	return fmt.Sprintf("%T", v)
}

// numStrEq: equality where at least one side is a numeric (or float) opaque string.
func (in *Interp) numStrEq(a, b Str) *Term {
	if a.FloatOf != nil || b.FloatOf != nil {
		if a.FloatOf != nil && b.FloatOf != nil {
			// same text iff same float (NaN texts are equal to each other)
			return in.ts.Or(in.ts.FCmp(OFEq, a.FloatOf, b.FloatOf), in.ts.And(in.ts.FIsNaN(a.FloatOf), in.ts.FIsNaN(b.FloatOf)))
		}
		panic(abortf("comparison of a float text with other bytes"))
	}
	if a.Num != nil && b.Num != nil {
		return in.ts.Eq(a.Num, b.Num)
	}
	if a.Num == nil {
		a, b = b, a
	}
	if b.IsConcrete() {
		n, err := strconv.ParseInt(b.S, 10, 64)
		if err != nil || strconv.FormatInt(n, 10) != b.S {
			return in.ts.False
		}
		return in.ts.Eq(a.Num, in.ts.BVConst(64, uint64(n)))
	}
	panic(pathEnd{Verdict{Kind: "ASSUME", Label: "numeric text compared with symbolic bytes (outside bound)"}})
}

// opaque: a []byte backing store that stands for the text of a symbolic number (no byte-level view).
func (a *Agg) opaque() bool { return a != nil && (a.Num != nil || a.FloatOf != nil) }

// opaqueUse: a numeric/float text (vfNumStr, FormatInt of a symbolic value) reached an operation that
// needs its bytes. The path is dropped as outside the bound (label kept; counted as ASSUME).
func opaqueUse(what string) pathEnd {
	return pathEnd{Verdict{Kind: "ASSUME", Label: "numeric text used at byte level (outside bound): " + what}}
}
