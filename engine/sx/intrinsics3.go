package sx

import (
	"fmt"
	"go/types"
	"hash/crc32"
	"strings"

	"golang.org/x/tools/go/ssa"
)

// ---------------------------------------------------------------------------
// Intrinsics added for the etcd-side properties (C15, C16, C07, C08):
//   vfStubFunc      per-harness replacement of a callee by a harness Go function (executed from SSA)
//   hash/crc32      CRC state as a GF(2)-linear function of the input bits (no table lookups)
//   zap, prometheus no effect / opaque handles

// opaquePkg: packages whose functions are never executed; a call yields an opaque result.
func opaquePkg(path string) bool {
	return strings.HasPrefix(path, "go.uber.org/zap") || strings.HasPrefix(path, "github.com/prometheus/") ||
		strings.HasPrefix(path, "go.uber.org/atomic") || strings.HasPrefix(path, "go.uber.org/multierr")
}

var crcTabCache = map[uint32]*crc32.Table{}

func crcTable(poly uint32) *crc32.Table {
	if t, ok := crcTabCache[poly]; ok {
		return t
	}
	t := crc32.MakeTable(poly)
	// the encoding below relies on the table being GF(2)-linear in its index; check it
	for x := 0; x < 256; x++ {
		var v uint32
		for i := 0; i < 8; i++ {
			if x>>i&1 == 1 {
				v ^= t[1<<i]
			}
		}
		if v != t[x] {
			panic("crc32 table is not linear")
		}
	}
	affSelfTest(t)
	crcTabCache[poly] = t
	return t
}

// crcStep: one byte of the table-driven CRC-32 update (reflected form):
//   crc' = tab[byte(crc) ^ b] ^ (crc >> 8), with tab[x] = XOR_i x_i * tab[1<<i]
func (in *Interp) crcStep(tab *crc32.Table, crc, b *Term) *Term {
	ts := in.ts
	if crc.IsConst() && b.IsConst() {
		c := uint32(crc.C)
		return ts.BVConst(32, uint64(tab[byte(c)^byte(b.C)]^(c>>8)))
	}
	x := ts.Bin(OBXor, ts.Extract(crc, 7, 0), b)
	res := ts.Bin(OLShr, crc, ts.BVConst(32, 8))
	zero := ts.BVConst(32, 0)
	for i := 0; i < 8; i++ {
		bit := ts.Eq(ts.Extract(x, i, i), ts.BVConst(1, 1))
		res = ts.Bin(OBXor, res, ts.Ite(bit, ts.BVConst(32, uint64(tab[1<<i])), zero))
	}
	return res
}

func (in *Interp) crcUpdate(tab *crc32.Table, crc *Term, p []*Term) *Term {
	res := in.ts.crcAffUpdate(tab, crc, p)
	if !res.IsConst() {
		in.crcTerms[res] = true
	}
	return res
}

// tableOf recovers the polynomial table from the engine value of a *crc32.Table (256 concrete words).
func (in *Interp) tableOf(v Value) *crc32.Table {
	p, ok := v.(Ptr)
	if !ok || p.Base == nil {
		panic(abortf("crc32: nil or unmodelled table"))
	}
	arr, ok := p.Base.V[p.Idx].(*Agg)
	if !ok || len(arr.V) != 256 {
		panic(abortf("crc32: unexpected table value"))
	}
	var t crc32.Table
	for i := range t {
		w, ok := arr.V[i].(*Term)
		if !ok || !w.IsConst() {
			panic(abortf("crc32: symbolic table"))
		}
		t[i] = uint32(w.C)
	}
	// identify by content
	for _, poly := range []uint32{crc32.Castagnoli, crc32.IEEE, crc32.Koopman} {
		c := crcTable(poly)
		if *c == t {
			return c
		}
	}
	panic(abortf("crc32: unknown table"))
}

func init() {
	vfIntrinsics["vfStubFunc"] = func(in *Interp, th *Thread, fn *ssa.Function, a []Value) (Value, bool) {
		// vfStubFunc(name string, f any): from now on calls of the function named name run f instead
		name := in.concreteStr(a[0], "vfStubFunc name")
		var fv FuncV
		switch x := a[1].(type) {
		case Iface:
			f, ok := x.V.(FuncV)
			if !ok {
				panic(abortf("vfStubFunc: not a function"))
			}
			fv = f
		case FuncV:
			fv = x
		default:
			panic(abortf("vfStubFunc: not a function"))
		}
		in.stubs[name] = fv
		return nil, true
	}
	vfIntrinsics["vfIteByte"] = func(in *Interp, th *Thread, fn *ssa.Function, a []Value) (Value, bool) {
		return in.ts.Ite(in.asTerm(a[0]), in.asTerm(a[1]), in.asTerm(a[2])), true
	}
	vfIntrinsics["vfIteU64"] = vfIntrinsics["vfIteByte"]
	// math/bits.Len*: position of the highest set bit as an ite chain (the library code indexes a
	// 256-entry table with the value, which would fork per value)
	bitsLen := func(w int) intrinsic {
		return func(in *Interp, th *Thread, fn *ssa.Function, a []Value) (Value, bool) {
			x := in.asTerm(a[0])
			ts := in.ts
			if x.IsConst() {
				n := 0
				for v := x.C; v != 0; v >>= 1 {
					n++
				}
				return ts.BVConst(64, uint64(n)), true
			}
			res := ts.BVConst(64, 0)
			for i := 0; i < w; i++ {
				bit := ts.Eq(ts.Extract(x, i, i), ts.BVConst(1, 1))
				res = ts.Ite(bit, ts.BVConst(64, uint64(i+1)), res)
			}
			return res, true
		}
	}
	reg(`math/bits.Len64 math/bits.Len`, bitsLen(64))
	reg(`math/bits.Len32`, bitsLen(32))
	reg(`math/bits.Len16`, bitsLen(16))
	reg(`math/bits.Len8`, bitsLen(8))
	reg(`hash/crc32.MakeTable`, func(in *Interp, th *Thread, fn *ssa.Function, a []Value) (Value, bool) {
		poly := in.asTerm(a[0])
		if !poly.IsConst() {
			panic(abortf("crc32.MakeTable: symbolic polynomial"))
		}
		key := fmt.Sprintf("crc32tab:%x", poly.C)
		if c, ok := in.pureTabsAgg[key]; ok {
			return Ptr{Base: c}, true
		}
		t := crcTable(uint32(poly.C))
		arr := &Agg{V: make([]Value, 256)}
		for i := range arr.V {
			arr.V[i] = in.ts.BVConst(32, uint64(t[i]))
		}
		cell := &Agg{V: []Value{arr}}
		in.pureTabsAgg[key] = cell
		return Ptr{Base: cell}, true
	})
	reg(`hash/crc32.Update`, func(in *Interp, th *Thread, fn *ssa.Function, a []Value) (Value, bool) {
		tab := in.tableOf(a[1])
		return in.crcUpdate(tab, in.asTerm(a[0]), in.bytesOf(a[2])), true
	})
	reg(`hash/crc32.Checksum`, func(in *Interp, th *Thread, fn *ssa.Function, a []Value) (Value, bool) {
		tab := in.tableOf(a[1])
		return in.crcUpdate(tab, in.ts.BVConst(32, 0), in.bytesOf(a[0])), true
	})
	reg(`hash/crc32.ChecksumIEEE`, func(in *Interp, th *Thread, fn *ssa.Function, a []Value) (Value, bool) {
		return in.crcUpdate(crcTable(crc32.IEEE), in.ts.BVConst(32, 0), in.bytesOf(a[0])), true
	})
}

// varintSize: number of bytes of the base-128 varint of x, forked over the feasible classes.
func (in *Interp) varintSize(x *Term) (*Term, bool) {
	ts := in.ts
	if x.IsConst() {
		n := 1
		for v := x.C >> 7; v != 0; v >>= 7 {
			n++
		}
		return ts.BVConst(64, uint64(n)), true
	}
	if in.crcTop {
		y := x
		if y.Op == OZext {
			y = y.A[0]
		}
		if in.crcTerms[y] {
			in.assume(ts.Cmp(OULe, ts.BVConst(64, 1<<28), x))
			return ts.BVConst(64, 5), true
		}
	}
	for n := 1; n < 10; n++ {
		lt := ts.Cmp(OULt, x, ts.BVConst(64, uint64(1)<<(7*uint(n))))
		if in.branch(lt, "varint size") {
			return ts.BVConst(64, uint64(n)), true
		}
	}
	return ts.BVConst(64, 10), true
}

// callSync calls fv from inside an intrinsic and runs the calling thread until the call has returned.
func (in *Interp) callSync(th *Thread, fv FuncV, args []Value) Value {
	base := th.top
	idx := len(base.locals)
	base.locals = append(base.locals, nil)
	in.callValue(th, fv, args, int32(idx), false, nil)
	for th.top != base {
		if th.top == nil {
			panic(abortf("callSync: thread ended inside a nested call"))
		}
		in.safeStep(th)
		if th.blocked != nil {
			panic(abortf("callSync: nested call blocked: %s", th.blocked.why))
		}
	}
	res := base.locals[idx]
	base.locals = base.locals[:idx]
	return res
}

func init() {
	// sort.Slice / sort.SliceStable: insertion sort through the caller's less function (the library goes
	// through reflect to swap elements)
	reg(`sort.Slice sort.SliceStable`, func(in *Interp, th *Thread, fn *ssa.Function, a []Value) (Value, bool) {
		iv, ok := a[0].(Iface)
		if !ok {
			panic(abortf("sort.Slice: unexpected argument %T", a[0]))
		}
		s, ok := iv.V.(Slice)
		if !ok {
			panic(abortf("sort.Slice: not a slice"))
		}
		less := a[1].(FuncV)
		for i := 1; i < s.Len; i++ {
			for j := i; j > 0; j-- {
				r := in.callSync(th, less, []Value{in.i64(int64(j)), in.i64(int64(j - 1))})
				if !in.branch(in.asTerm(r), "sort less") {
					break
				}
				in.access(slotKey{agg: s.Arr, idx: s.Off + j}, true)
				in.access(slotKey{agg: s.Arr, idx: s.Off + j - 1}, true)
				s.Arr.V[s.Off+j], s.Arr.V[s.Off+j-1] = s.Arr.V[s.Off+j-1], s.Arr.V[s.Off+j]
			}
		}
		return nil, true
	})
}

// deepEq: reflect.DeepEqual on engine values (scalars, strings, slices, structs/arrays, pointers).
func (in *Interp) deepEq(x, y Value, depth int) *Term {
	ts := in.ts
	if depth > 20 {
		panic(abortf("reflect.DeepEqual: too deep"))
	}
	switch a := x.(type) {
	case *Term:
		b, ok := y.(*Term)
		if !ok || a.Sort != b.Sort {
			return ts.False
		}
		return ts.Eq(a, b)
	case Str:
		b, ok := y.(Str)
		if !ok {
			return ts.False
		}
		return in.strEq(a, b)
	case Slice:
		b, ok := y.(Slice)
		if !ok || a.Nil != b.Nil || a.Len != b.Len {
			return ts.False
		}
		res := ts.True
		for i := 0; i < a.Len; i++ {
			res = ts.And(res, in.deepEq(a.Arr.V[a.Off+i], b.Arr.V[b.Off+i], depth+1))
		}
		return res
	case *Agg:
		b, ok := y.(*Agg)
		if !ok || len(a.V) != len(b.V) {
			return ts.False
		}
		res := ts.True
		for i := range a.V {
			res = ts.And(res, in.deepEq(a.V[i], b.V[i], depth+1))
		}
		return res
	case Ptr:
		b, ok := y.(Ptr)
		if !ok {
			return ts.False
		}
		if a.IsNil() || b.IsNil() {
			return ts.Bool(a.IsNil() && b.IsNil())
		}
		if a.Base == b.Base && a.Idx == b.Idx {
			return ts.True
		}
		return in.deepEq(a.Base.V[a.Idx], b.Base.V[b.Idx], depth+1)
	case Iface:
		b, ok := y.(Iface)
		if !ok {
			return ts.False
		}
		if a.T == nil || b.T == nil {
			return ts.Bool(a.T == nil && b.T == nil)
		}
		if !types.Identical(a.T, b.T) {
			return ts.False
		}
		return in.deepEq(a.V, b.V, depth+1)
	case nil:
		return ts.Bool(y == nil)
	}
	panic(abortf("reflect.DeepEqual: unsupported value %T", x))
}

func init() {
	reg(`reflect.DeepEqual`, func(in *Interp, th *Thread, fn *ssa.Function, a []Value) (Value, bool) {
		return in.deepEq(a[0], a[1], 0), true
	})
}

func init() {
	// math/rand: an arbitrary value in range (the code under test only draws election timeouts)
	randIntn := func(in *Interp, th *Thread, fn *ssa.Function, a []Value) (Value, bool) {
		n := in.asTerm(a[len(a)-1])
		v := in.fresh("rand", "clock", BV(64)) // kind "clock": skipped by native replays (not a harness input)
		in.assume(in.ts.And(in.ts.Cmp(OSLe, in.i64(0), v), in.ts.Cmp(OSLt, v, in.sameWidth(n, v))))
		return v, true
	}
	reg(`(*math/rand.Rand).Intn math/rand.Intn (*math/rand.Rand).Int63n math/rand.Int63n`, randIntn)
	// an arbitrary float in [0, 1)
	reg(`(*math/rand.Rand).Float64 math/rand.Float64`, func(in *Interp, th *Thread, fn *ssa.Function, a []Value) (Value, bool) {
		f := in.fresh("randf", "clock", F64Sort)
		in.assume(in.ts.And(in.ts.FCmp(OFLe, in.ts.F64Const(0), f), in.ts.FCmp(OFLt, f, in.ts.F64Const(1))))
		return f, true
	})
	reg(`math/rand.Seed (*math/rand.Rand).Seed`, noop)
}

func init() {
	// sync.Pool: Get returns the most recently Put object if there is one (what the per-P private slot
	// does on one processor), otherwise New(); Put keeps the object. Objects are never dropped.
	reg(`(*sync.Pool).Get`, func(in *Interp, th *Thread, fn *ssa.Function, a []Value) (Value, bool) {
		p := a[0].(Ptr)
		k := lockKey{p.Base, p.Idx}
		if items := in.pools[k]; len(items) > 0 {
			v := items[len(items)-1]
			in.pools[k] = items[:len(items)-1]
			return v, true
		}
		agg, ok := p.Base.V[p.Idx].(*Agg)
		if !ok || len(agg.V) == 0 {
			return Iface{}, true
		}
		newFn, ok := agg.V[len(agg.V)-1].(FuncV)
		if !ok || newFn.IsNil() {
			return Iface{}, true
		}
		return in.callSync(th, newFn, nil), true
	})
	reg(`(*sync.Pool).Put`, func(in *Interp, th *Thread, fn *ssa.Function, a []Value) (Value, bool) {
		p := a[0].(Ptr)
		k := lockKey{p.Base, p.Idx}
		if iv, ok := a[1].(Iface); ok && iv.T == nil {
			return nil, true
		}
		in.pools[k] = append(in.pools[k], a[1])
		return nil, true
	})
}
