package sx

import (
	"bytes"
	"encoding/json"
	"fmt"
	"os"
	"os/exec"
	"path/filepath"
	"regexp"
	"sort"
	"strings"
	"time"
)

// ReplayEntry is one element of the nondet vector of a counterexample.
type ReplayEntry struct {
	Name string `json:"name"`
	Kind string `json:"kind"`
	Val  uint64 `json:"val"`
}

type ReplayFile struct {
	Property string        `json:"property"`
	Harness  string        `json:"harness"`
	Package  string        `json:"package"`
	Verdict  string        `json:"verdict"`
	Pos      string        `json:"pos,omitempty"`
	Vector   []ReplayEntry `json:"vector"`
	Inputs   string        `json:"inputs_readable"`
	Native   string        `json:"native_result,omitempty"`
	Cmd      string        `json:"replay_cmd,omitempty"`
}

func BuildReplay(property, harness, pkg string, r *PathResult) *ReplayFile {
	rf := &ReplayFile{Property: property, Harness: harness, Package: pkg, Verdict: r.Verdict.String(), Pos: r.Verdict.Pos}
	var sb strings.Builder
	for _, v := range r.Vars {
		if v.Kind == "aux" {
			continue
		}
		e := ReplayEntry{Name: v.Pub, Kind: v.Kind}
		if v.T == nil {
			e.Val = uint64(v.Conc)
		} else {
			e.Val = r.Model[v.Name]
		}
		rf.Vector = append(rf.Vector, e)
		switch v.Kind {
		case "byte":
			fmt.Fprintf(&sb, "%s=%q ", v.Pub, string([]byte{byte(e.Val)}))
		case "int64", "clock":
			fmt.Fprintf(&sb, "%s=%d ", v.Pub, int64(e.Val))
		default:
			fmt.Fprintf(&sb, "%s=%d ", v.Pub, e.Val)
		}
	}
	rf.Inputs = strings.TrimSpace(sb.String())
	return rf
}

// NativeReplay runs the harness natively (go test -overlay) on the replay vector and returns the VFRESULT text.
// RaceReplay makes the next NativeReplay run under the Go race detector.
var RaceReplay bool

func NativeReplay(opt *LoadOptions, pkgDir, harness, replayPath string, timeout time.Duration) (string, string, error) {
	ov, _, err := Overlay(&LoadOptions{Repo: opt.Repo, HarnessDir: opt.HarnessDir, Packages: []string{pkgDir}})
	if err != nil {
		return "", "", err
	}
	scratch, err := os.MkdirTemp("", "vfreplay")
	if err != nil {
		return "", "", err
	}
	defer os.RemoveAll(scratch)
	pkgName := ""
	for _, src := range ov {
		for _, line := range strings.Split(string(src), "\n") {
			if strings.HasPrefix(line, "package ") {
				pkgName = strings.TrimSpace(strings.TrimPrefix(line, "package "))
				break
			}
		}
		if pkgName != "" {
			break
		}
	}
	testSrc := fmt.Sprintf(`//go:build verif

package %s

import "testing"

func TestVFReplay(t *testing.T) {
	vfNativeSetup()
	res := vfRunNative(%s)
	t.Log(res)
}
`, pkgName, harness)
	repl := map[string]string{}
	i := 0
	for virt, src := range ov {
		p := filepath.Join(scratch, fmt.Sprintf("f%d.go", i))
		i++
		if err := os.WriteFile(p, src, 0o644); err != nil {
			return "", "", err
		}
		repl[virt] = p
	}
	tp := filepath.Join(scratch, "replay_test.go")
	if err := os.WriteFile(tp, []byte(testSrc), 0o644); err != nil {
		return "", "", err
	}
	repl[filepath.Join(opt.Repo, pkgDir, "zz_vf_replay_test.go")] = tp
	ovJSON, _ := json.Marshal(map[string]interface{}{"Replace": repl})
	ovPath := filepath.Join(scratch, "overlay.json")
	os.WriteFile(ovPath, ovJSON, 0o644)
	modfile := filepath.Join(scratch, "go.mod")
	copyFile(modfile, filepath.Join(opt.Repo, "go.mod"))
	copyFile(filepath.Join(scratch, "go.sum"), filepath.Join(opt.Repo, "go.sum"))
	args := []string{"test", "-tags", "verif", "-vet=off", "-count=1"}
	if RaceReplay {
		args = append(args, "-race")
	}
	args = append(args, "-overlay", ovPath, "-run", "^TestVFReplay$", "-v", "-timeout", fmt.Sprintf("%ds", int(timeout.Seconds())), PkgPattern(opt.Repo, pkgDir))
	// allocation-size counterexamples are replayed under a 4 GB address-space limit
	sh := "ulimit -v 12582912; exec go"
	if timeout <= 20*time.Second {
		sh = "go build std >/dev/null 2>&1; ulimit -v 4194304; exec go"
	}
	for _, a := range args {
		sh += " '" + a + "'"
	}
	cmd := exec.Command("sh", "-c", sh)
	cmd.Dir = opt.Repo
	// temp files and directories the harness creates natively (logs, WAL and snapshot directories with
	// preallocated 64 MB segments) live under the replay's scratch directory and go away with it
	tmpd := filepath.Join(scratch, "tmp")
	os.MkdirAll(tmpd, 0o755)
	cmd.Env = append(os.Environ(), "TMPDIR="+tmpd, "GOFLAGS=-mod=mod -modfile="+modfile, "GOPROXY=off", "GOSUMDB=off", "GOTOOLCHAIN=local", "GOWORK=off", "VF_REPLAY="+replayPath)
	var out bytes.Buffer
	cmd.Stdout = &out
	cmd.Stderr = &out
	runErr := cmd.Run()
	txt := out.String()
	cmdline := fmt.Sprintf("(gosx replay) cd %s && VF_REPLAY=%s go %s", opt.Repo, replayPath, strings.Join(args, " "))
	if RaceReplay && strings.Contains(txt, "WARNING: DATA RACE") {
		return "RACE detected by the Go race detector", cmdline, nil
	}
	re := regexp.MustCompile(`VFRESULT: (.*)`)
	if m := re.FindStringSubmatch(txt); m != nil {
		return strings.TrimSpace(m[1]), cmdline, nil
	}
	if strings.Contains(txt, "panic:") || strings.Contains(txt, "fatal error:") || strings.Contains(txt, "signal: killed") {
		if !strings.Contains(txt, "panic:") && !strings.Contains(txt, "fatal error:") {
			return "PANIC out of memory (killed)", cmdline, nil
		}
		// a panic outside the harness goroutine, a fatal runtime error, or a timeout
		idx := strings.Index(txt, "panic:")
		if idx < 0 {
			idx = strings.Index(txt, "fatal error:")
		}
		end := idx + 200
		if end > len(txt) {
			end = len(txt)
		}
		return "PANIC " + strings.ReplaceAll(txt[idx:end], "\n", " "), cmdline, nil
	}
	if runErr != nil {
		tail := txt
		if len(tail) > 1500 {
			tail = tail[len(tail)-1500:]
		}
		return "", cmdline, fmt.Errorf("replay failed: %v\n%s", runErr, tail)
	}
	return "NORESULT", cmdline, nil
}

// Confirmed reports whether the native result reproduces the symbolic verdict.
func Confirmed(v Verdict, native string) bool {
	switch v.Kind {
	case "ASSERT":
		return native == "ASSERT "+v.Label
	case "PANIC":
		return strings.HasPrefix(native, "PANIC")
	case "RACE":
		return strings.HasPrefix(native, "RACE")
	case "DEADLOCK":
		return strings.HasPrefix(native, "PANIC") && (strings.Contains(native, "deadlock") || strings.Contains(native, "timed out"))
	case "UNWIND", "ALLOC":
		return strings.HasPrefix(native, "PANIC") && (strings.Contains(native, "timed out") || strings.Contains(native, "out of memory") || strings.Contains(native, "makeslice") || strings.Contains(native, "too large") || strings.Contains(native, "cannot allocate") || strings.Contains(native, "out of range"))
	}
	return false
}

// ---------------------------------------------------------------------------
// evidence

type Evidence struct {
	PropertyID  string                 `json:"property_id"`
	Tier        string                 `json:"tier"`
	Seed        int                    `json:"seed"`
	Level       string                 `json:"level"`
	Coverage    map[string]interface{} `json:"coverage"`
	Assumptions []string               `json:"assumptions"`
	WallS       float64                `json:"wall_s"`
	Violations  int                    `json:"violations"`
}

func WriteEvidence(path string, ev *Evidence) error {
	os.MkdirAll(filepath.Dir(path), 0o755)
	data, err := json.MarshalIndent(ev, "", " ")
	if err != nil {
		return err
	}
	return os.WriteFile(path, append(data, '\n'), 0o644)
}

func sortedKeys(m map[string]bool) []string {
	var ks []string
	for k := range m {
		ks = append(ks, k)
	}
	sort.Strings(ks)
	return ks
}
