package sx

import (
	"fmt"
	"time"
	"go/token"
	"go/types"
	"strings"
	"sync"

	"golang.org/x/tools/go/ssa"
)

// ---------------------------------------------------------------------------
// control signals (Go panics used to unwind the interpreter itself)

type abortErr struct{ msg string }

func abortf(f string, a ...interface{}) abortErr { return abortErr{fmt.Sprintf(f, a...)} }

type pathEnd struct{ v Verdict }

type blockSignal struct {
	why     string
	cond    func() bool
	passive bool
}

// Verdict is how a path ended.
type Verdict struct {
	Kind  string // OK ASSERT PANIC DEADLOCK UNWIND ABORT ASSUME LEAK ALLOC INCONCLUSIVE
	Label string // assertion label / panic kind / reason
	Func  string // function in which a panic was raised
	Pos   string
}

func (v Verdict) String() string {
	s := v.Kind
	if v.Label != "" {
		s += "(" + v.Label + ")"
	}
	if v.Func != "" {
		s += "@" + v.Func
	}
	return s
}

// ---------------------------------------------------------------------------
// program-wide, read-only after load

type fnInfo struct {
	idx  map[ssa.Value]int32
	n    int
	name string
}

type Program struct {
	Prog    *ssa.Program
	Pkgs    map[string]*ssa.Package
	mu      sync.Mutex
	infos   map[*ssa.Function]*fnInfo
	InitOK  map[string]bool // packages whose init is executed
	Fset    *token.FileSet
	strCons sync.Map
}

func (p *Program) info(fn *ssa.Function) *fnInfo {
	p.mu.Lock()
	defer p.mu.Unlock()
	if fi, ok := p.infos[fn]; ok {
		return fi
	}
	fi := &fnInfo{idx: map[ssa.Value]int32{}, name: fn.String()}
	n := int32(0)
	for _, p := range fn.Params {
		fi.idx[p] = n
		n++
	}
	for _, fv := range fn.FreeVars {
		fi.idx[fv] = n
		n++
	}
	for _, b := range fn.Blocks {
		for _, ins := range b.Instrs {
			if v, ok := ins.(ssa.Value); ok {
				fi.idx[v] = n
				n++
			}
		}
	}
	fi.n = int(n)
	p.infos[fn] = fi
	return fi
}

// ---------------------------------------------------------------------------
// frames and threads

type deferred struct {
	fn   FuncV
	args []Value
}

type Frame struct {
	fn     *ssa.Function
	info   *fnInfo
	block  *ssa.BasicBlock
	prev   *ssa.BasicBlock
	pc     int
	locals []Value
	defers []deferred
	caller *Frame
	retReg int32 // register in caller to receive the result; -1 none
	isDefer bool // this frame is a deferred call of caller

	unwinding bool // running defers
	panicking bool
	recovered bool
	panicVal  Value
	panicKind string
	panicFn   string
	panicPos  string
	result    Value
	depth     int
}

type Thread struct {
	id      int
	top     *Frame
	done    bool
	blocked *blockSignal
	// pending unbuffered send
	pendingSend *chanItem
	held        int // number of locks held (for diagnostics)
	vc          vclock
	result      Value
	preempts    int
}

type chanItem struct {
	v     Value
	taken bool
}

type lockState struct {
	writer  *Thread
	readers map[*Thread]int
	nread   int
}

type lockKey struct {
	base *Agg
	idx  int
}

const engineCap = 1 << 16

// Interp is the per-worker interpreter; reset per path.
type Interp struct {
	P      *Program
	ts     *TermStore
	solver *Solver
	cfg    *Config

	// per path
	globals  map[*ssa.Global]*Agg
	threads  []*Thread
	cur      *Thread
	locks    map[lockKey]*lockState
	lockOrd  []lockKey
	path     *pathState
	steps    int64
	nextObj  int
	clock    *Term // last clock reading (seconds), symbolic
	clockN   int
	events   []string
	fnSeen   map[string]bool
	uuidN    int
	concurrent bool
	maxPreempt int
	timersFire bool
	mapOrder   bool
	siteCount  map[ssa.Instruction]int
	allocCap   int64
	stubs      map[string]FuncV
	poison     map[*Agg]string
	timers     []*vtimer
	timerObjs  map[*Agg]*vtimer
	timerFires int
	maxTimerFires int
	preempts   int
	lockTrace  bool
	raceCheck  bool
	clockForce *Term
	clockFrozen *Term
	wg         map[lockKey]int
	once       map[lockKey]bool
	atomVals   map[lockKey]Value
	property   string
	hashUF     bool
	extraScopes int
	pathStart   time.Time
	vnow        int64
	lockHist    []lockRecord
	eagerSmallRem bool
	accesses    map[slotKey][]accessRec
	syncVC      map[interface{}]vclock
	atomicAccess bool
	inPure      bool
	pureTabs    map[string][]*Term
	pureTabsAgg map[string]*Agg
	crcTop      bool
	pools       map[lockKey][]Value
	crcTerms    map[*Term]bool
}

type Config struct {
	MaxSteps    int64
	Unwind      int // symbolic decisions per instruction site per path
	MaxDecisions int
	MaxDepth    int
	TimeoutMs   int
	Solver      string
	Trace       bool
}

func (in *Interp) get(fr *Frame, v ssa.Value) Value {
	switch v := v.(type) {
	case *ssa.Const:
		return in.constValue(v)
	case *ssa.Global:
		return in.globalPtr(v)
	case *ssa.Function:
		return FuncV{Fn: v}
	case *ssa.Builtin:
		return FuncV{Builtin: v}
	}
	i, ok := fr.info.idx[v]
	if !ok {
		panic(abortf("no register for %v in %s", v, fr.fn))
	}
	return fr.locals[i]
}

func (in *Interp) set(fr *Frame, v ssa.Value, x Value) {
	fr.locals[fr.info.idx[v]] = x
}

func (in *Interp) globalPtr(g *ssa.Global) Ptr {
	if a, ok := in.globals[g]; ok {
		return Ptr{Base: a}
	}
	if g.Pkg != nil && !in.P.InitOK[g.Pkg.Pkg.Path()] {
		// global of a package whose initialisation is not modelled
		a := &Agg{V: []Value{in.zero(g.Type().(*types.Pointer).Elem())}}
		in.globals[g] = a
		in.poison[a] = g.String()
		return Ptr{Base: a}
	}
	a := &Agg{V: []Value{in.zero(g.Type().(*types.Pointer).Elem())}}
	in.globals[g] = a
	return Ptr{Base: a}
}

// ---------------------------------------------------------------------------
// calls

func (in *Interp) pushFrame(th *Thread, fn *ssa.Function, args []Value, env []Value, retReg int32, isDefer bool) {
	if fn.Blocks == nil {
		panic(abortf("no body: %s", fn.String()))
	}
	depth := 0
	if th.top != nil {
		depth = th.top.depth + 1
	}
	if depth > in.cfg.MaxDepth {
		panic(pathEnd{Verdict{Kind: "UNWIND", Label: "call depth", Func: fn.String()}})
	}
	fi := in.P.info(fn)
	fr := &Frame{fn: fn, info: fi, block: fn.Blocks[0], locals: make([]Value, fi.n), caller: th.top, retReg: retReg, isDefer: isDefer, depth: depth}
	if len(args) != len(fn.Params) {
		panic(abortf("arity mismatch calling %s: %d args, %d params", fn, len(args), len(fn.Params)))
	}
	copy(fr.locals, args)
	copy(fr.locals[len(args):], env)
	th.top = fr
	if in.fnSeen != nil {
		in.fnSeen[fi.name] = true
	}
}

// callValue performs a call of fv; the result is delivered into retReg of the current frame
// (for SSA functions when the callee returns; for intrinsics/builtins immediately).
func (in *Interp) callValue(th *Thread, fv FuncV, args []Value, retReg int32, isDefer bool, site *ssa.CallCommon) {
	caller := th.top
	deliver := func(res Value) {
		if isDefer {
			return
		}
		if retReg >= 0 && caller != nil {
			caller.locals[retReg] = res
		}
	}
	if fv.isOpaque {
		deliver(fv.opaqueRes)
		return
	}
	if fv.Builtin != nil {
		deliver(in.callBuiltin(th, fv.Builtin, args, site))
		return
	}
	if fv.Fn == nil {
		in.goPanic(th, "nil func call", "invalid memory address or nil pointer dereference")
		return
	}
	fn := fv.Fn
	name := fn.String()
	if st, ok := in.stubs[name]; ok && st.Fn != fn {
		in.callValue(th, st, args, retReg, isDefer, site)
		return
	}
	if n := fn.Name(); len(n) > 2 && n[0] == 'v' && n[1] == 'f' {
		if ic, ok := vfIntrinsics[n]; ok {
			res, _ := ic(in, th, fn, args)
			deliver(res)
			return
		}
	}
	if len(args) == 1 && strings.HasPrefix(fn.Name(), "sov") && fn.Signature.Results().Len() == 1 {
		// gogo-protobuf varint size helpers (sovRaft, sovRecord, ...): (bits.Len64(x|1)+6)/7, i.e. the
		// number of 7-bit groups; forked over the feasible size classes so that buffer offsets stay concrete
		if x, ok := args[0].(*Term); ok && x.Sort.K == SBV && x.Sort.W == 64 {
			if r, ok := in.varintSize(x); ok {
				deliver(r)
				return
			}
		}
	}
	if ic, ok := intrinsics[name]; ok {
		res, handled := ic(in, th, fn, args)
		if handled {
			deliver(res)
			return
		}
	}
	if fn.Blocks == nil {
		if o := fn.Origin(); o != nil {
			if ic, ok := intrinsics[o.String()]; ok {
				res, handled := ic(in, th, fn, args)
				if handled {
					deliver(res)
					return
				}
			}
		}
		panic(abortf("no body and no intrinsic: %s", name))
	}
	if fn.Pkg != nil && fn.Name() == "init" && fn.Synthetic != "" {
		if !in.P.InitOK[fn.Pkg.Pkg.Path()] {
			deliver(nil)
			return
		}
	}
	if fn.Pkg != nil && opaquePkg(fn.Pkg.Pkg.Path()) {
		n := fn.Name()
		if strings.HasPrefix(n, "Fatal") || strings.HasPrefix(n, "Panic") || strings.HasPrefix(n, "DPanic") {
			if strings.HasPrefix(n, "Fatal") {
				panic(pathEnd{Verdict{Kind: "PANIC", Label: "process exit via " + name, Func: userFrame(th.top), Pos: in.posOf(th.top)}})
			}
			in.goPanicVal(th, "log.Panic", Iface{T: types.Typ[types.String], V: Str{S: name}})
			return
		}
		deliver(in.opaqueResult(fn.Signature, "result of "+name))
		return
	}
	if caller != nil && fn.Pkg != nil && !in.P.InitOK[fn.Pkg.Pkg.Path()] && isInitFunc(caller.fn) {
		// an init-time call that leaves the modelled package set (metric constructors, protobuf
		// registration, loggers, RNG seeding): the result is an opaque handle
		deliver(in.opaqueResult(fn.Signature, "init-time result of "+name))
		return
	}
	in.pushFrame(th, fn, args, fv.Env, retReg, isDefer)
}

func isInitFunc(fn *ssa.Function) bool {
	if fn.Pkg == nil {
		return false
	}
	n := fn.Name()
	return n == "init" || strings.HasPrefix(n, "init#")
}

func (in *Interp) prepareCall(fr *Frame, c *ssa.CallCommon) (FuncV, []Value) {
	v := in.get(fr, c.Value)
	var fv FuncV
	var args []Value
	if c.Method == nil {
		f, ok := v.(FuncV)
		if !ok {
			panic(abortf("call of non-function %T", v))
		}
		fv = f
	} else {
		recv := v.(Iface)
		if recv.T == nil {
			return FuncV{}, nil
		}
		if op, ok := recv.V.(Opaque); ok {
			// a method of an unmodelled object: the result is opaque too
			if c.Method.Name() == "Comparable" && op.What == "reflect type" {
				// context.WithValue's key check: the keys used by the code under test are strings
				return FuncV{opaqueRes: in.ts.True, isOpaque: true}, nil
			}
			return FuncV{opaqueRes: in.opaqueResult(c.Method.Type().(*types.Signature), op.What+"."+c.Method.Name()), isOpaque: true}, nil
		}
		m := in.P.Prog.LookupMethod(recv.T, c.Method.Pkg(), c.Method.Name())
		if m == nil {
			panic(abortf("no method %s on %v", c.Method.Name(), recv.T))
		}
		fv = FuncV{Fn: m}
		args = append(args, recv.V)
	}
	for _, a := range c.Args {
		args = append(args, in.get(fr, a))
	}
	return fv, args
}

// ---------------------------------------------------------------------------
// Go-level panics

func (in *Interp) goPanic(th *Thread, kind string, msg string) {
	in.goPanicVal(th, kind, Iface{T: types.Typ[types.String], V: Str{S: "runtime error: " + msg}})
}

func (in *Interp) goPanicVal(th *Thread, kind string, val Value) {
	fr := th.top
	fr.panicking = true
	fr.recovered = false
	fr.panicVal = val
	fr.panicKind = kind
	// attribute to the innermost frame that belongs to the module under test
	fr.panicFn = fr.fn.String()
	fr.panicPos = in.posOf(fr)
	fr.unwinding = true
	panic(panicSignal{})
}

type panicSignal struct{}

func (in *Interp) posOf(fr *Frame) string {
	if fr.block == nil || fr.pc >= len(fr.block.Instrs) {
		return ""
	}
	p := fr.block.Instrs[fr.pc].Pos()
	if p == token.NoPos {
		// search backwards for a position
		for i := fr.pc; i >= 0; i-- {
			if q := fr.block.Instrs[i].Pos(); q != token.NoPos {
				p = q
				break
			}
		}
	}
	if p == token.NoPos {
		return ""
	}
	pos := in.P.Fset.Position(p)
	return fmt.Sprintf("%s:%d", pos.Filename, pos.Line)
}

// check asserts an implicit run-time check: on the failing side a Go panic is raised.
func (in *Interp) check(ok *Term, kind string) {
	if ok.IsTrue() {
		return
	}
	if ok.IsFalse() || !in.branch(ok, "check:"+kind) {
		in.goPanic(in.cur, kind, kind)
	}
}

// ---------------------------------------------------------------------------
// the step function

func (in *Interp) stepThread(th *Thread) {
	fr := th.top
	if fr.unwinding {
		in.unwindStep(th, fr)
		return
	}
	if fr.pc >= len(fr.block.Instrs) {
		panic(abortf("fell off block in %s", fr.fn))
	}
	instr := fr.block.Instrs[fr.pc]
	in.steps++
	if in.steps > in.cfg.MaxSteps {
		panic(pathEnd{Verdict{Kind: "UNWIND", Label: "step budget", Func: fr.fn.String()}})
	}
	if in.cfg.Trace {
		fmt.Printf("[%d] %s: %s\n", th.id, fr.fn.Name(), instr.String())
	}
	in.exec(th, fr, instr)
}

func (in *Interp) unwindStep(th *Thread, fr *Frame) {
	if n := len(fr.defers); n > 0 {
		d := fr.defers[n-1]
		fr.defers = fr.defers[:n-1]
		in.callValue(th, d.fn, d.args, -1, true, nil)
		return
	}
	if fr.panicking {
		// propagate to caller
		th.top = fr.caller
		if fr.isDefer && th.top != nil {
			// a deferred call panicked: the caller (which is unwinding) now panics with the new value
		}
		if th.top == nil {
			th.done = true
			panic(pathEnd{Verdict{Kind: "PANIC", Label: fr.panicKind, Func: fr.panicFn, Pos: fr.panicPos}})
		}
		c := th.top
		c.panicking = true
		c.recovered = false
		c.panicVal = fr.panicVal
		c.panicKind = fr.panicKind
		c.panicFn = fr.panicFn
		c.panicPos = fr.panicPos
		c.unwinding = true
		return
	}
	fr.unwinding = false
	if fr.recovered {
		fr.recovered = false
		if fr.fn.Recover != nil {
			fr.prev = fr.block
			fr.block = fr.fn.Recover
			fr.pc = 0
			in.enterBlock(fr)
			return
		}
		// return zero results
		in.doReturn(th, fr, in.zeroResults(fr.fn))
		return
	}
	// normal RunDefers completed: continue after it
}

func (in *Interp) zeroResults(fn *ssa.Function) Value {
	res := fn.Signature.Results()
	switch res.Len() {
	case 0:
		return nil
	case 1:
		return in.zero(res.At(0).Type())
	}
	return in.zero(res)
}

func (in *Interp) doReturn(th *Thread, fr *Frame, res Value) {
	th.top = fr.caller
	if th.top == nil {
		th.done = true
		th.result = res
		return
	}
	if fr.isDefer {
		return
	}
	if fr.retReg >= 0 {
		th.top.locals[fr.retReg] = res
	}
}

func (in *Interp) enterBlock(fr *Frame) {
	// evaluate phis simultaneously
	b := fr.block
	var idx int = -1
	for i, p := range b.Preds {
		if p == fr.prev {
			idx = i
			break
		}
	}
	n := 0
	var vals []Value
	for _, ins := range b.Instrs {
		phi, ok := ins.(*ssa.Phi)
		if !ok {
			break
		}
		if idx < 0 {
			panic(abortf("phi without predecessor in %s", fr.fn))
		}
		vals = append(vals, in.get(fr, phi.Edges[idx]))
		n++
	}
	for i := 0; i < n; i++ {
		in.set(fr, b.Instrs[i].(*ssa.Phi), vals[i])
	}
	fr.pc = n
}

func (in *Interp) jump(fr *Frame, succ int) {
	fr.prev = fr.block
	fr.block = fr.block.Succs[succ]
	in.enterBlock(fr)
}

func derefType(t types.Type) types.Type {
	return t.Underlying().(*types.Pointer).Elem()
}

func (in *Interp) load(p Ptr) Value {
	if p.Base == nil {
		in.goPanic(in.cur, "nil dereference", "invalid memory address or nil pointer dereference")
	}
	if p.Sym != nil {
		elems := make([]*Term, p.N)
		for i := range elems {
			elems[i] = p.Base.V[p.Idx+i].(*Term)
		}
		return in.selectChain(elems, p.Sym)
	}
	if len(in.poison) > 0 {
		if g, ok := in.poison[p.Base]; ok {
			switch p.Base.V[p.Idx].(type) {
			case Ptr, Iface, FuncV, MapV, ChanV:
				// reference-typed global of an unmodelled package: an opaque handle (any real use aborts)
				return Opaque{"global " + g + " of a package whose init is not modelled"}
			}
			panic(abortf("read of global %s whose package init is not modelled", g))
		}
	}
	in.access(slotKey{agg: p.Base, idx: p.Idx}, false)
	return loadSlot(p.Base, p.Idx)
}

func (in *Interp) store(p Ptr, v Value) {
	if p.Base == nil {
		in.goPanic(in.cur, "nil dereference", "invalid memory address or nil pointer dereference")
	}
	if len(in.poison) > 0 {
		delete(in.poison, p.Base)
	}
	if p.Sym != nil {
		c := in.concretize(p.Sym, "store index")
		storeSlot(p.Base, p.Idx+int(c.C), v)
		return
	}
	in.access(slotKey{agg: p.Base, idx: p.Idx}, true)
	storeSlot(p.Base, p.Idx, v)
}

func (in *Interp) exec(th *Thread, fr *Frame, instr ssa.Instruction) {
	switch ins := instr.(type) {
	case *ssa.DebugRef:
	case *ssa.UnOp:
		x := in.get(fr, ins.X)
		switch ins.Op {
		case token.MUL: // load
			in.set(fr, ins, in.load(x.(Ptr)))
		case token.ARROW:
			v, ok := in.chanRecv(th, x.(ChanV), ins.CommaOk, ins.X.Type())
			_ = ok
			in.set(fr, ins, v)
		default:
			in.set(fr, ins, in.unop(ins, x))
		}
	case *ssa.BinOp:
		in.set(fr, ins, in.binop(ins.Op, ins.X.Type(), in.get(fr, ins.X), in.get(fr, ins.Y), ins.Y.Type()))
	case *ssa.Call:
		fv, args := in.prepareCall(fr, &ins.Call)
		if ins.Call.Method != nil && fv.IsNil() && !fv.isOpaque {
			in.goPanic(th, "nil dereference", "invalid memory address or nil pointer dereference")
		}
		// the caller's pc is advanced only when the call went through (a blocking intrinsic is retried,
		// a panic raised in this frame keeps the position of the call)
		in.callValue(th, fv, args, fr.info.idx[ins], false, &ins.Call)
	case *ssa.ChangeInterface:
		in.set(fr, ins, in.get(fr, ins.X))
	case *ssa.ChangeType:
		in.set(fr, ins, in.get(fr, ins.X))
	case *ssa.Convert:
		in.set(fr, ins, in.convert(ins.Type(), ins.X.Type(), in.get(fr, ins.X)))
	case *ssa.MultiConvert:
		in.set(fr, ins, in.convert(ins.Type(), ins.X.Type(), in.get(fr, ins.X)))
	case *ssa.SliceToArrayPointer:
		s := in.get(fr, ins.X).(Slice)
		n := int(derefType(ins.Type()).Underlying().(*types.Array).Len())
		if s.Len < n {
			in.goPanic(th, "slice to array", "cannot convert slice to array pointer")
		}
		if s.Off != 0 || len(s.Arr.V) != n {
			panic(abortf("SliceToArrayPointer on interior slice"))
		}
		cell := &Agg{V: []Value{s.Arr}}
		in.set(fr, ins, Ptr{Base: cell})
	case *ssa.MakeInterface:
		in.set(fr, ins, Iface{T: ins.X.Type(), V: in.get(fr, ins.X)})
	case *ssa.Extract:
		in.set(fr, ins, in.get(fr, ins.Tuple).(Tuple)[ins.Index])
	case *ssa.Slice:
		in.set(fr, ins, in.sliceOp(fr, ins))
	case *ssa.Return:
		var res Value
		switch len(ins.Results) {
		case 0:
		case 1:
			res = in.get(fr, ins.Results[0])
		default:
			tu := make(Tuple, len(ins.Results))
			for i, r := range ins.Results {
				tu[i] = in.get(fr, r)
			}
			res = tu
		}
		in.doReturn(th, fr, res)
		return
	case *ssa.RunDefers:
		fr.pc++
		fr.unwinding = true
		return
	case *ssa.Panic:
		v := in.get(fr, ins.X)
		in.goPanicVal(th, "explicit panic", v)
	case *ssa.Send:
		in.chanSend(th, in.get(fr, ins.Chan).(ChanV), in.get(fr, ins.X))
	case *ssa.Store:
		in.store(in.get(fr, ins.Addr).(Ptr), in.get(fr, ins.Val))
	case *ssa.If:
		c := in.asTerm(in.get(fr, ins.Cond))
		if in.branchAt(c, ins) {
			in.jump(fr, 0)
		} else {
			in.jump(fr, 1)
		}
		return
	case *ssa.Jump:
		in.jump(fr, 0)
		return
	case *ssa.Defer:
		fv, args := in.prepareCall(fr, &ins.Call)
		if ins.Call.Method != nil && fv.IsNil() {
			in.goPanic(th, "nil dereference", "invalid memory address or nil pointer dereference")
		}
		fr.defers = append(fr.defers, deferred{fv, args})
	case *ssa.Go:
		fv, args := in.prepareCall(fr, &ins.Call)
		in.spawn(fv, args)
	case *ssa.MakeChan:
		n := in.concreteInt(in.get(fr, ins.Size), true, "chan size")
		in.nextObj++
		in.set(fr, ins, ChanV{&ChanObj{Cap: int(n), ID: in.nextObj}})
	case *ssa.Alloc:
		a := &Agg{V: []Value{in.zero(derefType(ins.Type()))}}
		in.set(fr, ins, Ptr{Base: a})
	case *ssa.MakeSlice:
		in.makeSlice(fr, ins)
	case *ssa.MakeMap:
		in.nextObj++
		in.set(fr, ins, MapV{&MapObj{ID: in.nextObj}})
	case *ssa.Range:
		in.set(fr, ins, in.rangeIter(in.get(fr, ins.X)))
	case *ssa.Next:
		in.set(fr, ins, in.iterNext(in.get(fr, ins.Iter).(*IterV), ins))
	case *ssa.FieldAddr:
		if o, ok := in.get(fr, ins.X).(Opaque); ok {
			panic(abortf("field of an opaque object (%s) in %s", o.What, fr.fn.String()))
		}
		p := in.get(fr, ins.X).(Ptr)
		if p.Base == nil {
			in.goPanic(th, "nil dereference", "invalid memory address or nil pointer dereference")
		}
		if p.Sym != nil {
			panic(abortf("FieldAddr through a symbolic-index pointer"))
		}
		st, ok := p.Base.V[p.Idx].(*Agg)
		if !ok {
			panic(abortf("FieldAddr on %T in %s", p.Base.V[p.Idx], fr.fn))
		}
		in.set(fr, ins, Ptr{Base: st, Idx: ins.Field})
	case *ssa.Field:
		a := in.get(fr, ins.X).(*Agg)
		in.set(fr, ins, copyVal(a.V[ins.Field]))
	case *ssa.IndexAddr:
		in.indexAddr(fr, ins)
	case *ssa.Index:
		in.indexOp(fr, ins)
	case *ssa.Lookup:
		in.lookupOp(fr, ins)
	case *ssa.MapUpdate:
		m := in.get(fr, ins.Map).(MapV)
		if m.M == nil {
			in.goPanic(th, "nil map write", "assignment to entry in nil map")
		}
		in.mapSet(m.M, in.get(fr, ins.Key), copyVal(in.get(fr, ins.Value)))
	case *ssa.TypeAssert:
		in.typeAssert(fr, ins)
	case *ssa.MakeClosure:
		env := make([]Value, len(ins.Bindings))
		for i, b := range ins.Bindings {
			env[i] = in.get(fr, b)
		}
		in.set(fr, ins, FuncV{Fn: ins.Fn.(*ssa.Function), Env: env})
	case *ssa.Select:
		in.selectOp(th, fr, ins)
	case *ssa.Phi:
		panic(abortf("phi executed"))
	default:
		panic(abortf("unsupported instruction %T", instr))
	}
	fr.pc++
}

// ---------------------------------------------------------------------------
// slices, indexes

func (in *Interp) makeSlice(fr *Frame, ins *ssa.MakeSlice) {
	lt := in.asTerm(in.get(fr, ins.Len))
	ct := in.asTerm(in.get(fr, ins.Cap))
	// run-time check: 0 <= len <= cap, and a sanity cap on allocation size
	zero := in.ts.BVConst(int(lt.Sort.W), 0)
	okLen := in.ts.And(in.ts.Cmp(OSLe, zero, lt), in.ts.Cmp(OSLe, lt, in.sameWidth(ct, lt)))
	in.check(okLen, "makeslice: len out of range")
	if !lt.IsConst() || !ct.IsConst() {
		// can the input drive the allocation beyond what the protocol permits (512 MB)?
		big := in.ts.Cmp(OSLt, in.ts.BVConst(int(ct.Sort.W), uint64(in.allocCap)), ct)
		if !big.IsFalse() && in.branch(big, "alloc") {
			panic(pathEnd{Verdict{Kind: "ALLOC", Label: "allocation size controlled by input exceeds cap", Func: fr.fn.String(), Pos: in.posOf(fr)}})
		}
		// sizes the engine does not materialise are outside the bound
		small := in.ts.Cmp(OSLe, ct, in.ts.BVConst(int(ct.Sort.W), 64))
		if !in.branch(small, "alloc-small") {
			panic(pathEnd{Verdict{Kind: "ASSUME", Label: "input-driven allocation between 64 elements and the limit (outside bound)"}})
		}
	}
	n := in.concreteInt(ct, true, "make cap")
	l := in.concreteInt(lt, true, "make len")
	if n > in.allocCap {
		panic(pathEnd{Verdict{Kind: "ALLOC", Label: "allocation size exceeds cap", Func: fr.fn.String(), Pos: in.posOf(fr)}})
	}
	et := ins.Type().Underlying().(*types.Slice).Elem()
	if n > engineCap && !(isScalarType(et) && n <= 1<<21) {
		panic(pathEnd{Verdict{Kind: "ASSUME", Label: "allocation larger than the engine materialises (outside bound)"}})
	}
	arr := &Agg{V: make([]Value, n)}
	if isScalarType(et) {
		z := in.zero(et)
		for i := range arr.V {
			arr.V[i] = z
		}
	} else {
		for i := range arr.V {
			arr.V[i] = in.zero(et)
		}
	}
	in.set(fr, ins, Slice{Arr: arr, Len: int(l), Cap: int(n)})
}

func (in *Interp) sameWidth(t, like *Term) *Term {
	if t.Sort.W == like.Sort.W {
		return t
	}
	if t.Sort.W > like.Sort.W {
		return in.ts.Extract(t, int(like.Sort.W)-1, 0)
	}
	return in.ts.Sext(t, int(like.Sort.W))
}

// boundedIndex resolves an index term against [0,n): runs the bounds check and concretises.
func (in *Interp) boundedIndex(idx Value, idxType types.Type, n int, allowEq bool, kind string) int {
	t := in.asTerm(idx)
	if t.IsConst() {
		var v int64
		if isSigned(idxType) {
			v = sext(t.C, t.Sort.W)
		} else {
			v = int64(t.C)
			if t.C > 1<<62 {
				v = 1 << 62
			}
		}
		lim := int64(n)
		if allowEq {
			lim++
		}
		if v < 0 || v >= lim {
			in.goPanic(in.cur, kind, kind)
		}
		return int(v)
	}
	w := int(t.Sort.W)
	var ok *Term
	lim := uint64(n)
	if allowEq {
		lim++
	}
	// unsigned compare covers negatives for signed too
	ok = in.ts.Cmp(OULt, t, in.ts.BVConst(w, lim))
	if w < 64 && lim > mask(uint8(w)) {
		ok = in.ts.True
	}
	in.check(ok, kind)
	c := in.concretize(t, kind)
	return int(c.C)
}

func (in *Interp) sliceOp(fr *Frame, ins *ssa.Slice) Value {
	x := in.get(fr, ins.X)
	var lo, hi, max Value
	if ins.Low != nil {
		lo = in.get(fr, ins.Low)
	}
	if ins.High != nil {
		hi = in.get(fr, ins.High)
	}
	if ins.Max != nil {
		max = in.get(fr, ins.Max)
	}
	const kind = "slice bounds out of range"
	switch s := x.(type) {
	case Str:
		n := s.Len()
		if s.Num != nil {
			panic(opaqueUse("slicing numeric string"))
		}
		h := n
		if hi != nil {
			h = in.boundedIndex(hi, ins.High.Type(), n, true, kind)
		}
		l := 0
		if lo != nil {
			l = in.boundedIndex(lo, ins.Low.Type(), h, true, kind)
		}
		return in.strSlice(s, l, h)
	case Slice:
		if s.Arr.opaque() {
			if lo == nil && hi == nil {
				return s
			}
			panic(opaqueUse("slicing numeric byte string"))
		}
		c := s.Cap
		m := c
		if max != nil {
			m = in.boundedIndex(max, ins.Max.Type(), c, true, kind)
		}
		h := s.Len
		if hi != nil {
			h = in.boundedIndex(hi, ins.High.Type(), m, true, kind)
		}
		l := 0
		if lo != nil {
			l = in.boundedIndex(lo, ins.Low.Type(), h, true, kind)
		}
		if s.Nil && l == 0 && h == 0 {
			return Slice{Nil: true}
		}
		return Slice{Arr: s.Arr, Off: s.Off + l, Len: h - l, Cap: m - l}
	case Ptr: // *array
		if s.Base == nil {
			in.goPanic(in.cur, "nil dereference", "invalid memory address or nil pointer dereference")
		}
		arr := s.Base.V[s.Idx].(*Agg)
		c := len(arr.V)
		m := c
		if max != nil {
			m = in.boundedIndex(max, ins.Max.Type(), c, true, kind)
		}
		h := c
		if hi != nil {
			h = in.boundedIndex(hi, ins.High.Type(), m, true, kind)
		}
		l := 0
		if lo != nil {
			l = in.boundedIndex(lo, ins.Low.Type(), h, true, kind)
		}
		return Slice{Arr: arr, Off: l, Len: h - l, Cap: m - l}
	}
	panic(abortf("slice of %T", x))
}

func (in *Interp) indexAddr(fr *Frame, ins *ssa.IndexAddr) {
	x := in.get(fr, ins.X)
	const kind = "index out of range"
	switch s := x.(type) {
	case Slice:
		if s.Arr.opaque() {
			panic(opaqueUse("byte-level access to numeric string"))
		}
		if p, ok := in.symIndexPtr(fr, ins, s.Arr, s.Off, s.Len, kind); ok {
			in.set(fr, ins, p)
			return
		}
		i := in.boundedIndex(in.get(fr, ins.Index), ins.Index.Type(), s.Len, false, kind)
		in.set(fr, ins, Ptr{Base: s.Arr, Idx: s.Off + i})
	case Ptr:
		if s.Base == nil {
			in.goPanic(in.cur, "nil dereference", "invalid memory address or nil pointer dereference")
		}
		arr := s.Base.V[s.Idx].(*Agg)
		if p, ok := in.symIndexPtr(fr, ins, arr, 0, len(arr.V), kind); ok {
			in.set(fr, ins, p)
			return
		}
		i := in.boundedIndex(in.get(fr, ins.Index), ins.Index.Type(), len(arr.V), false, kind)
		in.set(fr, ins, Ptr{Base: arr, Idx: i})
	default:
		panic(abortf("IndexAddr on %T", x))
	}
}

// symbolic read: s[i] over scalar elements as an ite-chain instead of forking
func (in *Interp) selectChain(elems []*Term, idx *Term) *Term {
	w := int(idx.Sort.W)
	res := elems[len(elems)-1]
	for i := len(elems) - 2; i >= 0; i-- {
		res = in.ts.Ite(in.ts.Eq(idx, in.ts.BVConst(w, uint64(i))), elems[i], res)
	}
	return res
}

func (in *Interp) indexOp(fr *Frame, ins *ssa.Index) {
	x := in.get(fr, ins.X)
	idx := in.get(fr, ins.Index)
	const kind = "index out of range"
	switch s := x.(type) {
	case Str:
		if s.Num != nil {
			panic(opaqueUse("byte-level access to numeric string"))
		}
		it := in.asTerm(idx)
		n := s.Len()
		if !it.IsConst() && n > 0 && n <= 64 {
			ok := in.ts.Cmp(OULt, it, in.ts.BVConst(int(it.Sort.W), uint64(n)))
			in.check(ok, kind)
			in.set(fr, ins, in.selectChain(in.strBytes(s), it))
			return
		}
		i := in.boundedIndex(idx, ins.Index.Type(), n, false, kind)
		if s.B != nil {
			in.set(fr, ins, s.B[i])
		} else {
			in.set(fr, ins, in.ts.BVConst(8, uint64(s.S[i])))
		}
	case *Agg: // array value
		i := in.boundedIndex(idx, ins.Index.Type(), len(s.V), false, kind)
		in.set(fr, ins, copyVal(s.V[i]))
	default:
		panic(abortf("Index on %T", x))
	}
}

// ---------------------------------------------------------------------------
// maps

func (in *Interp) mapFind(m *MapObj, key Value) *mapEntry {
	if m == nil {
		return nil
	}
	in.access(slotKey{m: m}, false)
	for _, e := range m.Entries {
		if e.Deleted {
			continue
		}
		eq := in.valEq(key, e.K)
		if eq.IsTrue() {
			return e
		}
		if eq.IsFalse() {
			continue
		}
		if in.branch(eq, "mapkey") {
			return e
		}
	}
	return nil
}

func (in *Interp) mapSet(m *MapObj, key, val Value) {
	in.access(slotKey{m: m}, true)
	if e := in.mapFind(m, key); e != nil {
		e.V = val
		return
	}
	m.Entries = append(m.Entries, &mapEntry{K: key, V: val})
	m.N++
}

func (in *Interp) mapDelete(m *MapObj, key Value) {
	in.access(slotKey{m: m}, true)
	if e := in.mapFind(m, key); e != nil {
		e.Deleted = true
		m.N--
	}
}

func (in *Interp) lookupOp(fr *Frame, ins *ssa.Lookup) {
	x := in.get(fr, ins.X)
	switch s := x.(type) {
	case Str:
		idx := in.get(fr, ins.Index)
		it := in.asTerm(idx)
		n := s.Len()
		if s.Num != nil {
			panic(opaqueUse("byte-level access to numeric string"))
		}
		if !it.IsConst() && n > 0 && n <= 64 {
			ok := in.ts.Cmp(OULt, it, in.ts.BVConst(int(it.Sort.W), uint64(n)))
			in.check(ok, "index out of range")
			in.set(fr, ins, in.selectChain(in.strBytes(s), it))
			return
		}
		i := in.boundedIndex(idx, ins.Index.Type(), n, false, "index out of range")
		if s.B != nil {
			in.set(fr, ins, s.B[i])
		} else {
			in.set(fr, ins, in.ts.BVConst(8, uint64(s.S[i])))
		}
	case MapV:
		e := in.mapFind(s.M, in.get(fr, ins.Index))
		var v Value
		if e != nil {
			v = copyVal(e.V)
		} else {
			v = in.zero(ins.X.Type().Underlying().(*types.Map).Elem())
		}
		if ins.CommaOk {
			in.set(fr, ins, Tuple{v, in.ts.Bool(e != nil)})
		} else {
			in.set(fr, ins, v)
		}
	default:
		panic(abortf("Lookup on %T", x))
	}
}

func (in *Interp) rangeIter(x Value) *IterV {
	switch s := x.(type) {
	case Str:
		return &IterV{str: s, isStr: true}
	case MapV:
		it := &IterV{m: s.M}
		if s.M != nil {
			in.access(slotKey{m: s.M}, false)
			for i, e := range s.M.Entries {
				if !e.Deleted {
					it.order = append(it.order, i)
				}
			}
			if in.mapOrder && len(it.order) > 1 {
				it.order = in.permute(it.order)
			}
		}
		return it
	}
	panic(abortf("range over %T", x))
}

// permute chooses an iteration order: every permutation for n <= 3, rotations (both directions) beyond.
func (in *Interp) permute(ord []int) []int {
	n := len(ord)
	if n <= 3 {
		res := make([]int, 0, n)
		rest := append([]int(nil), ord...)
		for len(rest) > 1 {
			k := in.choose(len(rest), "maporder")
			res = append(res, rest[k])
			rest = append(rest[:k:k], rest[k+1:]...)
		}
		return append(res, rest[0])
	}
	k := in.choose(2*n, "maporder")
	res := make([]int, n)
	for i := 0; i < n; i++ {
		if k < n {
			res[i] = ord[(i+k)%n]
		} else {
			res[i] = ord[((k-n)-i+2*n)%n]
		}
	}
	return res
}

func (in *Interp) iterNext(it *IterV, ins *ssa.Next) Value {
	if it.isStr {
		s := it.str
		if it.pos >= s.Len() {
			return Tuple{in.ts.False, in.ts.BVConst(64, 0), in.ts.BVConst(32, 0)}
		}
		i := it.pos
		if s.B == nil {
			r, sz := decodeRune(s.S[i:])
			it.pos += sz
			return Tuple{in.ts.True, in.ts.BVConst(64, uint64(i)), in.ts.BVConst(32, uint64(r))}
		}
		b := s.B[i]
		if b.IsConst() && b.C < 0x80 {
			it.pos++
			return Tuple{in.ts.True, in.ts.BVConst(64, uint64(i)), in.ts.BVConst(32, b.C)}
		}
		// symbolic byte: ASCII assumption, recorded
		ascii := in.ts.Cmp(OULt, b, in.ts.BVConst(8, 0x80))
		if !in.branch(ascii, "range-string-ascii") {
			panic(pathEnd{Verdict{Kind: "ASSUME", Label: "non-ASCII byte in ranged-over symbolic string (outside bound)"}})
		}
		it.pos++
		return Tuple{in.ts.True, in.ts.BVConst(64, uint64(i)), in.ts.Zext(b, 32)}
	}
	for it.k < len(it.order) {
		e := it.m.Entries[it.order[it.k]]
		it.k++
		if e.Deleted {
			continue
		}
		return Tuple{in.ts.True, e.K, copyVal(e.V)}
	}
	mt := ins.Iter.(*ssa.Range).X.Type().Underlying().(*types.Map)
	return Tuple{in.ts.False, in.zero(mt.Key()), in.zero(mt.Elem())}
}

func decodeRune(s string) (rune, int) {
	for i, r := range s {
		_ = i
		n := len(string(r))
		if r == 0xFFFD && (len(s) < 3 || s[:3] != "�") {
			return r, 1
		}
		return r, n
	}
	return 0, 0
}

// ---------------------------------------------------------------------------
// type assertions

func (in *Interp) implements(t types.Type, it *types.Interface) bool {
	return types.Implements(t, it)
}

func (in *Interp) typeAssert(fr *Frame, ins *ssa.TypeAssert) {
	x := in.get(fr, ins.X).(Iface)
	var ok bool
	var v Value
	if x.T != nil {
		if it, isI := ins.AssertedType.Underlying().(*types.Interface); isI {
			ok = in.implements(x.T, it)
			v = x
		} else {
			ok = types.Identical(x.T, ins.AssertedType)
			v = x.V
		}
	}
	if ins.CommaOk {
		if !ok {
			v = in.zero(ins.AssertedType)
		}
		in.set(fr, ins, Tuple{v, in.ts.Bool(ok)})
		return
	}
	if !ok {
		in.goPanic(in.cur, "type assertion", "interface conversion failed")
	}
	in.set(fr, ins, v)
}

// ---------------------------------------------------------------------------
// builtins

func (in *Interp) callBuiltin(th *Thread, b *ssa.Builtin, args []Value, site *ssa.CallCommon) Value {
	ts := in.ts
	switch b.Name() {
	case "len":
		switch x := args[0].(type) {
		case Str:
			if x.Num != nil {
				panic(opaqueUse("len of numeric string"))
			}
			return ts.BVConst(64, uint64(x.Len()))
		case Slice:
			if x.Arr.opaque() {
				panic(opaqueUse("len of numeric byte string"))
			}
			return ts.BVConst(64, uint64(x.Len))
		case MapV:
			if x.M == nil {
				return ts.BVConst(64, 0)
			}
			return ts.BVConst(64, uint64(x.M.N))
		case ChanV:
			if x.C == nil {
				return ts.BVConst(64, 0)
			}
			n := 0
			for _, it := range x.C.items {
				if !it.taken {
					n++
				}
			}
			return ts.BVConst(64, uint64(n))
		case *Agg:
			return ts.BVConst(64, uint64(len(x.V)))
		case Ptr:
			if x.Base == nil {
				// len of nil *array is the array length (static); ssa gives const usually
				panic(abortf("len(nil *array)"))
			}
			return ts.BVConst(64, uint64(len(x.Base.V[x.Idx].(*Agg).V)))
		}
	case "cap":
		switch x := args[0].(type) {
		case Slice:
			return ts.BVConst(64, uint64(x.Cap))
		case ChanV:
			if x.C == nil {
				return ts.BVConst(64, 0)
			}
			return ts.BVConst(64, uint64(x.C.Cap))
		case *Agg:
			return ts.BVConst(64, uint64(len(x.V)))
		}
	case "append":
		return in.appendOp(args[0].(Slice), args[1])
	case "copy":
		dst := args[0].(Slice)
		n := 0
		switch src := args[1].(type) {
		case Slice:
			n = dst.Len
			if src.Len < n {
				n = src.Len
			}
			tmp := make([]Value, n)
			for i := 0; i < n; i++ {
				tmp[i] = copyVal(src.Arr.V[src.Off+i])
			}
			for i := 0; i < n; i++ {
				storeSlot(dst.Arr, dst.Off+i, tmp[i])
			}
		case Str:
			b := in.strBytes(src)
			n = dst.Len
			if len(b) < n {
				n = len(b)
			}
			for i := 0; i < n; i++ {
				dst.Arr.V[dst.Off+i] = b[i]
			}
		}
		return ts.BVConst(64, uint64(n))
	case "delete":
		m := args[0].(MapV)
		if m.M != nil {
			in.mapDelete(m.M, args[1])
		}
		return nil
	case "print", "println":
		return nil
	case "recover":
		// valid when called directly by a deferred function whose caller is panicking
		fr := th.top
		if fr != nil && fr.isDefer && fr.caller != nil && fr.caller.panicking {
			c := fr.caller
			c.panicking = false
			c.recovered = true
			return c.panicVal
		}
		return Iface{}
	case "close":
		c := args[0].(ChanV)
		if c.C == nil {
			in.goPanic(th, "close of nil channel", "close of nil channel")
		}
		if c.C.Closed {
			in.goPanic(th, "close of closed channel", "close of closed channel")
		}
		c.C.Closed = true
		in.hbRelease(th, c.C)
		in.syncPoint(th, "close")
		return nil
	case "min", "max":
		r := in.asTerm(args[0])
		signed := true
		if site != nil {
			signed = isSigned(site.Args[0].Type())
		}
		for _, a := range args[1:] {
			t := in.asTerm(a)
			var lt *Term
			switch {
			case r.Sort.K != SBV:
				lt = ts.FCmp(OFLt, t, r)
			case signed:
				lt = ts.Cmp(OSLt, t, r)
			default:
				lt = ts.Cmp(OULt, t, r)
			}
			if b.Name() == "max" {
				lt = ts.Not(lt)
				if r.Sort.K == SBV {
					if signed {
						lt = ts.Cmp(OSLt, r, t)
					} else {
						lt = ts.Cmp(OULt, r, t)
					}
				}
			}
			r = ts.Ite(lt, t, r)
		}
		return r
	case "clear":
		switch x := args[0].(type) {
		case MapV:
			if x.M != nil {
				for _, e := range x.M.Entries {
					e.Deleted = true
				}
				x.M.N = 0
			}
		case Slice:
			et := site.Args[0].Type().Underlying().(*types.Slice).Elem()
			for i := 0; i < x.Len; i++ {
				storeSlot(x.Arr, x.Off+i, in.zero(et))
			}
		}
		return nil
	case "ssa:wrapnilchk":
		p := args[0].(Ptr)
		if p.Base == nil {
			in.goPanic(th, "nil dereference", "value method called using nil pointer")
		}
		return p
	}
	panic(abortf("builtin %s on %T", b.Name(), args[0]))
}

func (in *Interp) appendOp(s Slice, more Value) Value {
	var elems []Value
	switch m := more.(type) {
	case Slice:
		if m.Arr.opaque() {
			panic(opaqueUse("append of numeric byte string"))
		}
		for i := 0; i < m.Len; i++ {
			elems = append(elems, copyVal(m.Arr.V[m.Off+i]))
		}
	case Str:
		for _, b := range in.strBytes(m) {
			elems = append(elems, b)
		}
	default:
		panic(abortf("append of %T", more))
	}
	if s.Arr.opaque() {
		panic(opaqueUse("append to numeric byte string"))
	}
	if len(elems) == 0 {
		return s
	}
	need := s.Len + len(elems)
	if need <= s.Cap {
		for i, e := range elems {
			storeSlot(s.Arr, s.Off+s.Len+i, e)
		}
		return Slice{Arr: s.Arr, Off: s.Off, Len: need, Cap: s.Cap}
	}
	if int64(need) > engineCap {
		// a slice that keeps growing under the control of an input value
		panic(pathEnd{Verdict{Kind: "ALLOC", Label: "append grows beyond allocation cap"}})
	}
	newcap := need
	if s.Cap*2 > newcap {
		newcap = s.Cap * 2
	}
	arr := &Agg{V: make([]Value, newcap)}
	for i := 0; i < s.Len; i++ {
		arr.V[i] = copyVal(s.Arr.V[s.Off+i])
	}
	for i, e := range elems {
		arr.V[s.Len+i] = e
	}
	if newcap > need {
		// zero-fill spare capacity lazily with a scalar zero of the first element's kind
		z := zeroLike(elems[0], in)
		for i := need; i < newcap; i++ {
			arr.V[i] = z()
		}
	}
	return Slice{Arr: arr, Len: need, Cap: newcap}
}

func zeroLike(v Value, in *Interp) func() Value {
	switch x := v.(type) {
	case *Term:
		var z *Term
		switch x.Sort.K {
		case SBool:
			z = in.ts.False
		case SBV:
			z = in.ts.BVConst(int(x.Sort.W), 0)
		case SF64:
			z = in.ts.F64Const(0)
		default:
			z = in.ts.F32Const(0)
		}
		return func() Value { return z }
	case Str:
		return func() Value { return Str{} }
	case Ptr:
		return func() Value { return Ptr{} }
	case Slice:
		return func() Value { return Slice{Nil: true} }
	case MapV:
		return func() Value { return MapV{} }
	case ChanV:
		return func() Value { return ChanV{} }
	case FuncV:
		return func() Value { return FuncV{} }
	case Iface:
		return func() Value { return Iface{} }
	case *Agg:
		return func() Value { return zeroAgg(x, in) }
	}
	return func() Value { return nil }
}

func zeroAgg(a *Agg, in *Interp) Value {
	n := &Agg{V: make([]Value, len(a.V))}
	for i, e := range a.V {
		n.V[i] = zeroLike(e, in)()
	}
	return n
}

func shortName(fn *ssa.Function) string {
	s := fn.String()
	if i := strings.LastIndex(s, "/"); i >= 0 {
		s = s[i+1:]
	}
	return s
}

// opaqueResult builds the result of a call into unmodelled code: every component is Opaque.
func (in *Interp) opaqueResult(sig *types.Signature, what string) Value {
	res := sig.Results()
	mk := func(t types.Type) Value {
		if _, ok := t.Underlying().(*types.Interface); ok {
			return Iface{T: types.Typ[types.Invalid], V: Opaque{what}}
		}
		return Opaque{what}
	}
	switch res.Len() {
	case 0:
		return nil
	case 1:
		return mk(res.At(0).Type())
	}
	tu := make(Tuple, res.Len())
	for i := range tu {
		tu[i] = mk(res.At(i).Type())
	}
	return tu
}

// symIndexPtr: &a[i] with a symbolic i over scalar elements (n <= 256) becomes a symbolic-index
// pointer: a later load is an ite-chain instead of a fork per index value.
func (in *Interp) symIndexPtr(fr *Frame, ins *ssa.IndexAddr, arr *Agg, off, n int, kind string) (Ptr, bool) {
	it, ok := in.get(fr, ins.Index).(*Term)
	if !ok || it.IsConst() || n == 0 || n > 256 || arr == nil {
		return Ptr{}, false
	}
	for i := 0; i < n; i++ {
		if _, isT := arr.V[off+i].(*Term); !isT {
			return Ptr{}, false
		}
	}
	w := int(it.Sort.W)
	okT := in.ts.Cmp(OULt, it, in.ts.BVConst(w, uint64(n)))
	if w < 64 && uint64(n) > mask(uint8(w)) {
		okT = in.ts.True
	}
	in.check(okT, kind)
	return Ptr{Base: arr, Idx: off, Sym: it, N: n}, true
}
