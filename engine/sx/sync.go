package sx

import (
	"fmt"
	"go/types"

	"golang.org/x/tools/go/ssa"
)

// ---------------------------------------------------------------------------
// threads

func (in *Interp) spawn(fv FuncV, args []Value) *Thread {
	th := &Thread{id: len(in.threads)}
	in.threads = append(in.threads, th)
	saved := in.cur
	if fv.Fn == nil {
		panic(abortf("go of non-SSA function"))
	}
	if fv.Fn.Blocks == nil {
		panic(abortf("go of external function %s", fv.Fn))
	}
	in.pushFrame(th, fv.Fn, args, fv.Env, -1, false)
	in.cur = saved
	if in.raceCheck && saved != nil {
		pvc := in.vcOf(saved)
		th.vc = pvc.copy()
		th.vc[th.id] = 1
		pvc[saved.id]++
	}
	in.syncPoint(saved, "go")
	return th
}

// syncPoint is called after a synchronisation operation of th completes. In concurrent mode the
// scheduler may pre-empt th here (bounded number of pre-emptions per thread set).
func (in *Interp) syncPoint(th *Thread, why string) {
	if !in.concurrent || th == nil {
		return
	}
	if in.preempts >= in.maxPreempt {
		return
	}
	var others []*Thread
	for _, t := range in.threads {
		if t != th && in.runnable(t) {
			others = append(others, t)
		}
	}
	if len(others) == 0 {
		return
	}
	k := in.choose(len(others)+1, "preempt:"+why)
	if k == 0 {
		return
	}
	in.preempts++
	t := others[k-1]
	t.blocked = nil
	in.cur = t
}

// ---------------------------------------------------------------------------
// locks (sync.Mutex / sync.RWMutex), keyed by the address of the mutex value

func (in *Interp) lockOf(p Ptr) *lockState {
	if p.Base == nil {
		in.goPanic(in.cur, "nil dereference", "invalid memory address or nil pointer dereference")
	}
	k := lockKey{p.Base, p.Idx}
	ls, ok := in.locks[k]
	if !ok {
		ls = &lockState{readers: map[*Thread]int{}}
		in.locks[k] = ls
		in.lockOrd = append(in.lockOrd, k)
	}
	return ls
}

func (in *Interp) lockIndex(ls *lockState) int {
	for i, k := range in.lockOrd {
		if in.locks[k] == ls {
			return i
		}
	}
	return -1
}

func (in *Interp) mutexLock(th *Thread, p Ptr, what string) {
	ls := in.lockOf(p)
	if ls.writer != nil || ls.nread > 0 {
		panic(blockSignal{why: fmt.Sprintf("%s on lock#%d held(w=%v,r=%d)", what, in.lockIndex(ls), ls.writer != nil, ls.nread),
			cond: func() bool { return ls.writer == nil && ls.nread == 0 }})
	}
	ls.writer = th
	th.held++
	in.hbAcquire(th, ls)
	in.lockEvent(th, ls, "L")
	in.syncPoint(th, "lock")
}

func (in *Interp) mutexUnlock(th *Thread, p Ptr) {
	ls := in.lockOf(p)
	if ls.writer == nil {
		in.goPanicVal(th, "unlock of unlocked mutex", Iface{T: types.Typ[types.String], V: Str{S: "fatal error: sync: unlock of unlocked mutex"}})
	}
	ls.writer.held--
	ls.writer = nil
	in.hbRelease(th, ls)
	in.lockEvent(th, ls, "U")
	in.syncPoint(th, "unlock")
}

func (in *Interp) mutexRLock(th *Thread, p Ptr) {
	ls := in.lockOf(p)
	if ls.writer != nil {
		panic(blockSignal{why: fmt.Sprintf("RLock on lock#%d held by writer", in.lockIndex(ls)),
			cond: func() bool { return ls.writer == nil }})
	}
	ls.readers[th]++
	ls.nread++
	th.held++
	in.hbAcquire(th, ls)
	in.lockEvent(th, ls, "RL")
	in.syncPoint(th, "rlock")
}

func (in *Interp) mutexRUnlock(th *Thread, p Ptr) {
	ls := in.lockOf(p)
	if ls.nread == 0 {
		in.goPanicVal(th, "RUnlock of unlocked RWMutex", Iface{T: types.Typ[types.String], V: Str{S: "fatal error: sync: RUnlock of unlocked RWMutex"}})
	}
	// Go does not track reader identity
	ls.nread--
	if ls.readers[th] > 0 {
		ls.readers[th]--
		th.held--
	} else {
		for t, n := range ls.readers {
			if n > 0 {
				ls.readers[t]--
				t.held--
				break
			}
		}
	}
	in.hbRelease(th, ls)
	in.lockEvent(th, ls, "RU")
	in.syncPoint(th, "runlock")
}

// lockRecord: one acquisition with what the acquiring thread already held
type lockRecord struct {
	th   *Thread
	op   string
	ls   *lockState
	held []*lockState
}

func (in *Interp) lockEvent(th *Thread, ls *lockState, op string) {
	if in.lockTrace {
		in.events = append(in.events, fmt.Sprintf("t%d:%s#%d", th.id, op, in.lockIndex(ls)))
	}
	if op == "L" || op == "RL" {
		var held []*lockState
		for _, k := range in.lockOrd {
			o := in.locks[k]
			if o == ls {
				continue
			}
			if o.writer == th || o.readers[th] > 0 {
				held = append(held, o)
			}
		}
		in.lockHist = append(in.lockHist, lockRecord{th: th, op: op, ls: ls, held: held})
	}
}

// lockDiscipline checks the recorded acquisitions against the hierarchy "stripes in increasing index,
// then any non-stripe lock": 0 ok, 1 a stripe acquired while a stripe with a larger or equal index is
// held, 2 a stripe acquired while a non-stripe lock is held, 3 a non-stripe lock acquired while
// another non-stripe lock is held by the same thread (nested shard/stream/channel locks).
func (in *Interp) lockDiscipline(stripes []Ptr) int {
	idx := map[*lockState]int{}
	for i, p := range stripes {
		if ls, ok := in.locks[lockKey{p.Base, p.Idx}]; ok {
			idx[ls] = i
		}
	}
	for _, r := range in.lockHist {
		ri, isStripe := idx[r.ls]
		for _, h := range r.held {
			hi, hStripe := idx[h]
			switch {
			case isStripe && hStripe && hi >= ri:
				return 1
			case isStripe && !hStripe:
				return 2
			case !isStripe && !hStripe:
				return 3
			}
		}
	}
	return 0
}

// locksHeld counts locks currently held (by anyone).
func (in *Interp) locksHeld() int {
	n := 0
	for _, ls := range in.locks {
		if ls.writer != nil {
			n++
		}
		n += ls.nread
	}
	return n
}

// ---------------------------------------------------------------------------
// channels

func (in *Interp) chanSend(th *Thread, c ChanV, v Value) {
	if c.C == nil {
		panic(blockSignal{why: "send on nil channel", cond: func() bool { return false }})
	}
	ch := c.C
	if th.pendingSend != nil {
		// we are retrying after having deposited the value
		it := th.pendingSend
		if it.taken {
			th.pendingSend = nil
			in.syncPoint(th, "send")
			return
		}
		if ch.Closed {
			th.pendingSend = nil
			in.goPanic(th, "send on closed channel", "send on closed channel")
		}
		panic(blockSignal{why: "send (unbuffered) waiting for receiver", cond: func() bool { return it.taken || ch.Closed }})
	}
	if ch.Closed {
		in.goPanic(th, "send on closed channel", "send on closed channel")
	}
	if ch.Cap > 0 {
		if ch.live() < ch.Cap {
			it := &chanItem{v: copyVal(v)}
			in.hbRelease(th, it)
			ch.items = append(ch.items, it)
			in.syncPoint(th, "send")
			return
		}
		panic(blockSignal{why: "send on full channel", cond: func() bool { return ch.live() < ch.Cap || ch.Closed }})
	}
	it := &chanItem{v: copyVal(v)}
	in.hbRelease(th, it)
	ch.items = append(ch.items, it)
	th.pendingSend = it
	if w := ch.freeWaiter(); w != nil {
		w.claimed = true
	}
	panic(blockSignal{why: "send (unbuffered) waiting for receiver", cond: func() bool { return it.taken || ch.Closed }})
}

func (ch *ChanObj) live() int {
	n := 0
	for _, it := range ch.items {
		if !it.taken {
			n++
		}
	}
	return n
}

func (ch *ChanObj) take() (Value, bool) {
	for i, it := range ch.items {
		if !it.taken {
			it.taken = true
			ch.items = ch.items[i+1:]
			ch.lastTaken = it
			return it.v, true
		}
	}
	ch.items = nil
	return nil, false
}

func (in *Interp) chanRecv(th *Thread, c ChanV, commaOk bool, ct types.Type) (Value, bool) {
	elem := ct.Underlying().(*types.Chan).Elem()
	if c.C == nil {
		panic(blockSignal{why: "receive on nil channel", cond: func() bool { return false }})
	}
	ch := c.C
	if v, ok := ch.take(); ok {
		in.hbAcquire(th, ch.lastTaken)
		in.syncPoint(th, "recv")
		if commaOk {
			return Tuple{v, in.ts.True}, true
		}
		return v, true
	}
	if ch.Closed {
		in.hbAcquire(th, ch)
		z := in.zero(elem)
		if commaOk {
			return Tuple{z, in.ts.False}, false
		}
		return z, false
	}
	w := &chanWaiter{chans: []*ChanObj{ch}}
	w.park()
	panic(blockSignal{why: fmt.Sprintf("receive on empty channel #%d", ch.ID), cond: func() bool {
		if ch.live() > 0 || ch.Closed {
			w.leave()
			return true
		}
		return false
	}})
}

func (in *Interp) selectOp(th *Thread, fr *Frame, ins *ssa.Select) {
	type cs struct {
		idx int
		ch  *ChanObj
		send bool
		v   Value
	}
	var ready []cs
	var all []cs
	for i, st := range ins.States {
		c := in.get(fr, st.Chan).(ChanV)
		if c.C == nil {
			continue
		}
		x := cs{idx: i, ch: c.C, send: st.Dir == types.SendOnly}
		if x.send {
			x.v = in.get(fr, st.Send)
		}
		all = append(all, x)
		if x.send {
			if c.C.Closed || (c.C.Cap > 0 && c.C.live() < c.C.Cap) || (c.C.Cap == 0 && c.C.freeWaiter() != nil && c.C.live() == 0) {
				ready = append(ready, x)
			}
		} else {
			if c.C.live() > 0 || c.C.Closed {
				ready = append(ready, x)
			}
		}
	}
	result := func(chosen int, recvOk bool, recv Value) {
		r := Tuple{in.ts.BVConst(64, uint64(int64(chosen))), in.ts.Bool(recvOk)}
		for i, st := range ins.States {
			if st.Dir == types.RecvOnly {
				if i == chosen && recv != nil {
					r = append(r, recv)
				} else {
					r = append(r, in.zero(st.Chan.Type().Underlying().(*types.Chan).Elem()))
				}
			}
		}
		in.set(fr, ins, r)
	}
	if len(ready) == 0 {
		if !ins.Blocking {
			result(-1, false, nil)
			return
		}
		// blocking select with nothing ready
		chans := all
		w := &chanWaiter{}
		for _, x := range chans {
			if !x.send {
				w.chans = append(w.chans, x.ch)
			}
		}
		w.park()
		panic(blockSignal{why: "select with no ready case", cond: func() bool {
			ok := false
			for _, x := range chans {
				if x.send {
					if x.ch.Closed || (x.ch.Cap > 0 && x.ch.live() < x.ch.Cap) || (x.ch.Cap == 0 && x.ch.freeWaiter() != nil && x.ch.live() == 0) {
						ok = true
					}
				} else if x.ch.live() > 0 || x.ch.Closed {
					ok = true
				}
			}
			if ok {
				w.leave()
			}
			return ok
		}})
	}
	k := 0
	if len(ready) > 1 {
		k = in.choose(len(ready), "select")
	}
	x := ready[k]
	if x.send {
		if x.ch.Closed {
			in.goPanic(th, "send on closed channel", "send on closed channel")
		}
		it := &chanItem{v: copyVal(x.v)}
		in.hbRelease(th, it)
		x.ch.items = append(x.ch.items, it)
		if x.ch.Cap == 0 {
			// rendezvous: the parked receiver this send counts on is committed to it
			if w := x.ch.freeWaiter(); w != nil {
				w.claimed = true
			}
		}
		result(x.idx, false, nil)
	} else {
		if v, ok := x.ch.take(); ok {
			in.hbAcquire(th, x.ch.lastTaken) // a receive in a select synchronises with the send like a plain receive
			result(x.idx, true, v)
		} else {
			in.hbAcquire(th, x.ch) // closed channel: synchronises with the close
			result(x.idx, false, nil)
		}
	}
	in.syncPoint(th, "select")
}

// ---------------------------------------------------------------------------
// virtual timers: a time.After/Timer channel becomes ready only when every thread is blocked
// (virtual time passes) or, in timersFire mode, at a nondeterministic point.

type vtimer struct {
	ch       *ChanObj
	fired    bool
	dur      *Term
	stopped  bool
	periodic bool
	due      int64 // virtual ns at which it fires; -1 = unknown (symbolic duration)
	period   int64
}

func (in *Interp) newTimer(dur *Term, periodic bool) *vtimer {
	in.nextObj++
	t := &vtimer{ch: &ChanObj{Cap: 1, ID: in.nextObj, Timer: true}, dur: dur, periodic: periodic, due: -1}
	if dur.IsConst() {
		d := sext(dur.C, dur.Sort.W)
		if d < 0 {
			d = 0
		}
		t.due = in.vnow + d
		t.period = d
		if t.due < in.vnow { // overflow: effectively never
			t.due = 1<<63 - 1
		}
	}
	in.timers = append(in.timers, t)
	return t
}

// fireTimer lets virtual time pass when every thread is blocked: the pending timer with the earliest
// due time fires (ties and timers with symbolic durations are chosen nondeterministically).
func (in *Interp) fireTimer() bool {
	if !in.timersFire {
		return false
	}
	var cands []*vtimer
	best := int64(1<<63 - 1)
	unknown := false
	for _, t := range in.timers {
		if (!t.fired || t.periodic) && !t.stopped && t.ch.live() == 0 {
			if t.due < 0 {
				unknown = true
			} else if t.due < best {
				best = t.due
			}
		}
	}
	for _, t := range in.timers {
		if (!t.fired || t.periodic) && !t.stopped && t.ch.live() == 0 {
			if unknown || t.due == best {
				cands = append(cands, t)
			}
		}
	}
	if len(cands) == 0 {
		return false
	}
	k := 0
	if len(cands) > 1 {
		k = in.choose(len(cands), "timer")
	}
	t := cands[k]
	t.fired = true
	if t.due >= 0 {
		if t.due > in.vnow {
			in.vnow = t.due
		}
		if t.periodic {
			t.due += t.period
		}
	}
	in.timerFires++
	if in.timerFires > in.maxTimerFires {
		panic(pathEnd{Verdict{Kind: "UNWIND", Label: "timer fire budget"}})
	}
	t.ch.items = append(t.ch.items, &chanItem{v: in.timeValue(in.now())})
	return true
}

// ---------------------------------------------------------------------------
// data-race detection (opt-in: vfOpt("racecheck",1)): happens-before with vector clocks.
// Synchronisation edges: mutex release -> later acquire of the same mutex, go statement -> first step
// of the new thread, thread end -> vfWaitAll, channel send -> receive, close -> receive, atomic
// operation -> later atomic operation on the same slot. Two accesses to the same memory slot (or
// map) by different threads, at least one a write, not ordered by these edges in the schedule being
// explored, are a race (two sync/atomic operations never race with each other).

type vclock map[int]int64

func (v vclock) copy() vclock {
	n := make(vclock, len(v))
	for k, x := range v {
		n[k] = x
	}
	return n
}

func (v vclock) join(o vclock) {
	for k, x := range o {
		if x > v[k] {
			v[k] = x
		}
	}
}

func (in *Interp) vcOf(th *Thread) vclock {
	if th.vc == nil {
		th.vc = vclock{th.id: 1}
	}
	return th.vc
}

// release: publish th's knowledge into the synchronisation object's clock
func (in *Interp) hbRelease(th *Thread, key interface{}) {
	if !in.raceCheck || th == nil {
		return
	}
	vc := in.vcOf(th)
	o, ok := in.syncVC[key]
	if !ok {
		o = vclock{}
		in.syncVC[key] = o
	}
	o.join(vc)
	vc[th.id]++
}

// acquire: learn what was published through the synchronisation object
func (in *Interp) hbAcquire(th *Thread, key interface{}) {
	if !in.raceCheck || th == nil {
		return
	}
	if o, ok := in.syncVC[key]; ok {
		in.vcOf(th).join(o)
	}
}

type slotKey struct {
	agg *Agg
	idx int
	m   *MapObj
}

type accessRec struct {
	tid    int
	clock  int64
	write  bool
	atomic bool
	fn     string
}

func (in *Interp) access(k slotKey, write bool) {
	if !in.raceCheck || in.inPure {
		return
	}
	th := in.cur
	if th == nil || th.id < 0 {
		return
	}
	vc := in.vcOf(th)
	fn := ""
	recs := in.accesses[k]
	for _, o := range recs {
		if o.tid == th.id {
			continue
		}
		if !write && !o.write {
			continue
		}
		if in.atomicAccess && o.atomic {
			continue
		}
		if vc[o.tid] >= o.clock {
			continue // ordered before this access
		}
		if th.top != nil {
			fn = userFrame(th.top)
		}
		what := "memory slot"
		if k.m != nil {
			what = "map"
		}
		pos := ""
		if th.top != nil {
			pos = in.stackString()
		}
		panic(pathEnd{Verdict{Kind: "RACE", Label: "unsynchronised access to a " + what + ": " + o.fn + " / " + fn, Func: fn, Pos: pos}})
	}
	// one record per (thread, kind): the latest access subsumes the earlier ones of the same thread
	for i := range recs {
		if recs[i].tid == th.id && recs[i].write == write && recs[i].atomic == in.atomicAccess {
			recs[i].clock = vc[th.id]
			return
		}
	}
	if th.top != nil {
		fn = userFrame(th.top)
	}
	in.accesses[k] = append(recs, accessRec{tid: th.id, clock: vc[th.id], write: write, atomic: in.atomicAccess, fn: fn})
}
