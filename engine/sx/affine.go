package sx

import (
	"hash/crc32"
	"os"
	"sort"
)

// GF(2)-affine representation of CRC values. A CRC state is kept as
//     K xor  XOR_{(t,i)} bit_i(t) * M(t,i)
// with K and the masks M concrete 32-bit words and (t,i) "atoms": bit i of an opaque term t (a symbolic
// input byte, or a bit of an unknown seed). Updating the CRC with concrete bytes only transforms K and
// the masks (constant folding); symbolic bytes add atoms. The SMT term of a state is generated from the
// sorted atom list, so equal forms are the same hash-consed term, and an equality between two CRC values
// is rewritten to "their XOR (atoms cancel) == 0": a single-byte difference leaves 16 atoms with
// linearly independent masks instead of two nested XOR/shift chains over the whole record.

type atomKey struct {
	t   *Term
	bit int
}

type affine struct {
	k     uint32
	atoms map[atomKey]uint32
}

func (a *affine) clone() *affine {
	b := &affine{k: a.k, atoms: make(map[atomKey]uint32, len(a.atoms)+8)}
	for k, v := range a.atoms {
		b.atoms[k] = v
	}
	return b
}

func (a *affine) xorAtom(k atomKey, m uint32) {
	if m == 0 {
		return
	}
	if v := a.atoms[k] ^ m; v == 0 {
		delete(a.atoms, k)
	} else {
		a.atoms[k] = v
	}
}

// affOf: the affine form of a 32-bit term (constants and CRC results exactly; anything else as 32 atoms).
func (ts *TermStore) affOf(t *Term) *affine {
	if t.IsConst() {
		return &affine{k: uint32(t.C), atoms: map[atomKey]uint32{}}
	}
	if a, ok := ts.aff[t]; ok {
		return a.clone()
	}
	a := &affine{atoms: map[atomKey]uint32{}}
	for i, b := range ts.bitsOf(t) {
		p := ts.bitParity(b)
		a.k ^= uint32(p.c) << uint(i)
		for _, k := range p.atoms {
			a.xorAtom(k, 1<<uint(i))
		}
	}
	return a
}

// parity: a one-bit value c xor XOR atoms (atoms sorted, unique).
type parity struct {
	c     uint8
	atoms []atomKey
}

func atomLess(a, b atomKey) bool {
	if a.t.ID != b.t.ID {
		return a.t.ID < b.t.ID
	}
	return a.bit < b.bit
}

// parTerm: canonical 1-bit term of a parity (registered so that it can be expanded again).
func (ts *TermStore) parTerm(p parity) *Term {
	if len(p.atoms) == 0 {
		return ts.BVConst(1, uint64(p.c))
	}
	var res *Term
	for _, k := range p.atoms {
		b := ts.Extract(k.t, k.bit, k.bit)
		if res == nil {
			res = b
		} else {
			res = ts.mk(OBXor, BV(1), res, b, nil, 0, 0, "")
		}
	}
	if p.c == 1 {
		res = ts.mk(OBXor, BV(1), res, ts.BVConst(1, 1), nil, 0, 0, "")
	}
	if len(p.atoms) > 1 || p.c == 1 {
		ts.par[res] = p
	}
	return res
}

// bitParity: bit i of t as a parity (through bitsOf; parity terms are expanded, other sources are atoms).
func (ts *TermStore) bitParity(b bitRef) parity {
	if b.src == nil {
		return parity{c: uint8(b.c)}
	}
	if b.idx == 0 {
		if p, ok := ts.par[b.src]; ok {
			return p
		}
	}
	return parity{atoms: []atomKey{{b.src, int(b.idx)}}}
}

func parXor(a, b parity) parity {
	r := parity{c: a.c ^ b.c}
	i, j := 0, 0
	for i < len(a.atoms) && j < len(b.atoms) {
		switch {
		case a.atoms[i] == b.atoms[j]:
			i++
			j++
		case atomLess(a.atoms[i], b.atoms[j]):
			r.atoms = append(r.atoms, a.atoms[i])
			i++
		default:
			r.atoms = append(r.atoms, b.atoms[j])
			j++
		}
	}
	r.atoms = append(r.atoms, a.atoms[i:]...)
	r.atoms = append(r.atoms, b.atoms[j:]...)
	return r
}

// affTerm builds (and registers) the canonical term of an affine form: the concatenation of its 32
// bit parities.
func (ts *TermStore) affTerm(a *affine) *Term {
	if len(a.atoms) == 0 {
		return ts.BVConst(32, uint64(a.k))
	}
	keys := make([]atomKey, 0, len(a.atoms))
	for k := range a.atoms {
		keys = append(keys, k)
	}
	sort.Slice(keys, func(i, j int) bool { return atomLess(keys[i], keys[j]) })
	var res *Term
	for j := 0; j < 32; j++ {
		p := parity{c: uint8(a.k >> uint(j) & 1)}
		for _, k := range keys {
			if a.atoms[k]>>uint(j)&1 == 1 {
				p.atoms = append(p.atoms, k)
			}
		}
		bt := ts.parTerm(p)
		if res == nil {
			res = bt
		} else {
			res = ts.Concat(bt, res)
		}
	}
	if !res.IsConst() {
		ts.aff[res] = a
	}
	return res
}

// crcAffUpdate: crc32.Update(crc, tab, p) on affine forms.
func (ts *TermStore) crcAffUpdate(tab *crc32.Table, crc *Term, p []*Term) *Term {
	a := ts.affOf(crc)
	a.k ^= 0xffffffff
	lin := func(m uint32) uint32 { return tab[byte(m)] ^ (m >> 8) }
	for _, b := range p {
		if b.IsConst() {
			a.k = lin(a.k ^ uint32(byte(b.C)))
		} else {
			a.k = lin(a.k)
		}
		if len(a.atoms) > 0 {
			na := make(map[atomKey]uint32, len(a.atoms)+8)
			for k, m := range a.atoms {
				if v := lin(m); v != 0 {
					na[k] = v
				}
			}
			a.atoms = na
		}
		if !b.IsConst() {
			for i := 0; i < 8; i++ {
				a.xorAtom(atomKey{b, i}, tab[1<<uint(i)])
			}
		}
	}
	a.k ^= 0xffffffff
	return ts.affTerm(a)
}

// parEq: equality of two bit-vector terms at least one of whose bits is a parity term: bit by bit,
// (x_i xor y_i) with common atoms cancelled must be 0.
func (ts *TermStore) parEq(x, y *Term) (*Term, bool) {
	if x.Sort.K != SBV || x.Sort.W > 64 || (x.IsConst() && y.IsConst()) {
		return nil, false
	}
	bx, by := ts.bitsOf(x), ts.bitsOf(y)
	has := false
	for i := range bx {
		if bx[i].src != nil && bx[i].idx == 0 {
			if _, ok := ts.par[bx[i].src]; ok {
				has = true
				break
			}
		}
		if by[i].src != nil && by[i].idx == 0 {
			if _, ok := ts.par[by[i].src]; ok {
				has = true
				break
			}
		}
	}
	if !has {
		return nil, false
	}
	var rows []parity
	for i := range bx {
		if bx[i] == by[i] {
			continue
		}
		d := parXor(ts.bitParity(bx[i]), ts.bitParity(by[i]))
		if len(d.atoms) == 0 {
			if d.c == 1 {
				return ts.False, true
			}
			continue
		}
		rows = append(rows, d)
	}
	if useGauss && !ts.noGauss {
		// the reduced system is added to (not substituted for) the per-bit rows: redundant but it
		// hands the solver the pivots
		red, ok := gaussGF2(append([]parity(nil), rows...))
		if !ok {
			return ts.False, true
		}
		rows = append(rows, red...)
	}
	res := ts.True
	zero := ts.BVConst(1, 0)
	for _, d := range rows {
		q := ts.parTerm(d)
		res = ts.And(res, ts.mk(OEq, BoolSort, zero, q, nil, 0, 0, ""))
	}
	return res, true
}

var useGauss = os.Getenv("GOSX_NOGAUSS") == ""

// gaussGF2 brings the system {row_i = 0} to reduced row-echelon form over GF(2) (columns = atoms in
// canonical order). ok=false: the system is inconsistent (a row 1 = 0). Equivalent to the input system;
// each resulting equation has its own pivot atom, which is what lets a CDCL solver decide collisions
// ("can two different contents have the same CRC") by unit propagation instead of search.
func gaussGF2(rows []parity) ([]parity, bool) {
	var out []parity // reduced rows, each with pivot = atoms[0]
	for _, r := range rows {
		// eliminate the pivots of the rows found so far
		for changed := true; changed; {
			changed = false
			for _, p := range out {
				pv := p.atoms[0]
				for _, a := range r.atoms {
					if a == pv {
						r = parXor(r, p)
						changed = true
						break
					}
				}
			}
		}
		if len(r.atoms) == 0 {
			if r.c == 1 {
				return nil, false
			}
			continue
		}
		// back-substitute the new pivot into the earlier rows
		pv := r.atoms[0]
		for i, p := range out {
			for _, a := range p.atoms[1:] {
				if a == pv {
					out[i] = parXor(p, r)
					break
				}
			}
		}
		out = append(out, r)
	}
	return out, true
}

// affSelfTest validates the affine summary against the real crc32.Update: random buffers in which a
// random subset of bytes is "symbolic" (fresh variables) are summarised, then the form is evaluated
// under the concrete values of those bytes and compared with the library result.
func affSelfTest(tab *crc32.Table) {
	ts := NewTermStore()
	seed := uint32(0x9e3779b9)
	rnd := func() uint32 {
		seed ^= seed << 13
		seed ^= seed >> 17
		seed ^= seed << 5
		return seed
	}
	for iter := 0; iter < 200; iter++ {
		n := int(rnd()%40) + 1
		buf := make([]byte, n)
		terms := make([]*Term, n)
		val := map[*Term]byte{}
		for i := range buf {
			buf[i] = byte(rnd())
			if rnd()%3 == 0 {
				v := ts.Var("selftest_"+string(rune('a'+iter%26))+string(rune('0'+i%10))+string(rune('A'+i/10))+string(rune('a'+iter/26)), BV(8))
				terms[i] = v
				val[v] = buf[i]
			} else {
				terms[i] = ts.BVConst(8, uint64(buf[i]))
			}
		}
		prev := rnd()
		want := crc32.Update(prev, tab, buf)
		got := ts.crcAffUpdate(tab, ts.BVConst(32, uint64(prev)), terms)
		var gv uint32
		if got.IsConst() {
			gv = uint32(got.C)
		} else {
			a := ts.aff[got]
			gv = a.k
			for k, m := range a.atoms {
				if val[k.t]>>uint(k.bit)&1 == 1 {
					gv ^= m
				}
			}
		}
		if gv != want {
			panic("crc32 affine summary disagrees with hash/crc32")
		}
	}
}
