package sx

import (
	"fmt"
	"go/token"
	"io"
	"os"
	"path/filepath"
	"sort"
	"strings"

	"golang.org/x/tools/go/packages"
	"golang.org/x/tools/go/ssa"
	"golang.org/x/tools/go/ssa/ssautil"
)

// LoadOptions describes what to load.
type LoadOptions struct {
	Repo       string   // /repo
	HarnessDir string   // /verif/harness ; sub-directories mirror repo package directories
	Packages   []string // repo-relative package dirs to load, e.g. "memdb", "util"
	Scratch    string   // scratch dir for the modfile copy
}

func copyFile(dst, src string) error {
	in, err := os.Open(src)
	if err != nil {
		return err
	}
	defer in.Close()
	out, err := os.Create(dst)
	if err != nil {
		return err
	}
	defer out.Close()
	_, err = io.Copy(out, in)
	return err
}

// Overlay builds the overlay map (virtual file in repo -> contents) for the harness files.
func Overlay(opt *LoadOptions) (map[string][]byte, map[string]string, error) {
	ov := map[string][]byte{}
	real := map[string]string{}
	lib, err := os.ReadFile(filepath.Join(opt.HarnessDir, "vflib.go.txt"))
	if err != nil {
		return nil, nil, err
	}
	for _, p := range opt.Packages {
		dir := filepath.Join(opt.HarnessDir, p)
		ents, err := os.ReadDir(dir)
		if err != nil {
			return nil, nil, fmt.Errorf("harness dir for %s: %v", p, err)
		}
		pkgName := ""
		for _, e := range ents {
			if !strings.HasSuffix(e.Name(), ".go") {
				continue
			}
			src, err := os.ReadFile(filepath.Join(dir, e.Name()))
			if err != nil {
				return nil, nil, err
			}
			virt := filepath.Join(opt.Repo, p, "zz_vf_"+e.Name())
			ov[virt] = src
			real[virt] = filepath.Join(dir, e.Name())
			if pkgName == "" {
				for _, line := range strings.Split(string(src), "\n") {
					if strings.HasPrefix(line, "package ") {
						pkgName = strings.TrimSpace(strings.TrimPrefix(line, "package "))
						break
					}
				}
			}
		}
		if pkgName == "" {
			return nil, nil, fmt.Errorf("no harness files in %s", dir)
		}
		virt := filepath.Join(opt.Repo, p, "zz_vf_lib.go")
		ov[virt] = []byte(strings.Replace(string(lib), "package PKG", "package "+pkgName, 1))
		// HIDE: repository files of this package that the harness replaces (scripts/selftest.py rewrites the
		// package's own *_test.go files into harness files; the originals must not be compiled next to them)
		if hide, err := os.ReadFile(filepath.Join(dir, "HIDE")); err == nil {
			for _, name := range strings.Fields(string(hide)) {
				ov[filepath.Join(opt.Repo, p, name)] = []byte("package " + pkgName + "\n")
			}
		}
	}
	return ov, real, nil
}

// PkgPattern maps a repo-relative package directory to the pattern the go tool needs when run from
// the repo root: "./dir" inside the root module, the import path for a directory that belongs to one
// of the nested (replaced) etcd modules.
func PkgPattern(repo, dir string) string {
	d := dir
	for d != "." && d != "" && d != "/" {
		data, err := os.ReadFile(filepath.Join(repo, d, "go.mod"))
		if err == nil {
			for _, line := range strings.Split(string(data), "\n") {
				if strings.HasPrefix(line, "module ") {
					mod := strings.TrimSpace(strings.TrimPrefix(line, "module "))
					rest, _ := filepath.Rel(d, dir)
					if rest == "." {
						return mod
					}
					return mod + "/" + filepath.ToSlash(rest)
				}
			}
		}
		d = filepath.Dir(d)
	}
	return "./" + dir
}

func Load(opt *LoadOptions) (*Program, error) {
	ov, _, err := Overlay(opt)
	if err != nil {
		return nil, err
	}
	if err := os.MkdirAll(opt.Scratch, 0o755); err != nil {
		return nil, err
	}
	modfile := filepath.Join(opt.Scratch, "go.mod")
	if err := copyFile(modfile, filepath.Join(opt.Repo, "go.mod")); err != nil {
		return nil, err
	}
	if err := copyFile(filepath.Join(opt.Scratch, "go.sum"), filepath.Join(opt.Repo, "go.sum")); err != nil {
		return nil, err
	}
	env := os.Environ()
	env = append(env, "GOFLAGS=-mod=mod -modfile="+modfile, "GOPROXY=off", "GOSUMDB=off", "GOTOOLCHAIN=local", "GOWORK=off")
	fset := token.NewFileSet()
	cfg := &packages.Config{
		Mode:       packages.LoadAllSyntax,
		Dir:        opt.Repo,
		Overlay:    ov,
		Env:        env,
		Fset:       fset,
		BuildFlags: []string{"-tags=verif"},
	}
	var pats []string
	for _, p := range opt.Packages {
		pats = append(pats, PkgPattern(opt.Repo, p))
	}
	pkgs, err := packages.Load(cfg, pats...)
	if err != nil {
		return nil, err
	}
	nerr := 0
	packages.Visit(pkgs, nil, func(p *packages.Package) {
		for _, e := range p.Errors {
			if nerr < 20 {
				fmt.Fprintln(os.Stderr, "load error:", e)
			}
			nerr++
		}
	})
	if nerr > 0 {
		return nil, fmt.Errorf("%d package load errors", nerr)
	}
	prog, spkgs := ssautil.AllPackages(pkgs, ssa.InstantiateGenerics)
	prog.Build()
	P := &Program{Prog: prog, Pkgs: map[string]*ssa.Package{}, infos: map[*ssa.Function]*fnInfo{}, InitOK: map[string]bool{}, Fset: fset}
	for i, sp := range spkgs {
		if sp != nil {
			P.Pkgs[pkgs[i].PkgPath] = sp
		}
	}
	for _, p := range prog.AllPackages() {
		path := p.Pkg.Path()
		if initAllowed(path) {
			P.InitOK[path] = true
		}
	}
	return P, nil
}

// packages whose synthetic init (global initialisers, init functions) is executed concretely at the
// start of every path. Everything else keeps zero-valued, poisoned globals.
func initAllowed(path string) bool {
	switch path {
	case "errors", "io", "strconv", "strings", "bytes", "unicode/utf8", "sort", "math", "bufio",
		"hash/fnv", "encoding/binary", "context", "internal/oserror", "io/fs", "internal/bytealg",
		"math/bits", "slices", "cmp", "hash", "internal/itoa", "unicode/utf16", "internal/stringslite",
		"container/list":
		return true
	}
	if strings.HasPrefix(path, "go.etcd.io/etcd/") {
		// the copied-in etcd tree: package-level state (error values, tables, protobuf name maps) is
		// initialised from the real init code; init-time calls that leave the modelled set (prometheus,
		// protobuf registration, zap, math/rand) yield opaque handles
		return true
	}
	if strings.HasPrefix(path, "github.com/innovationb1ue/RedisGO") {
		return !strings.Contains(path, "/etcd/")
	}
	return false
}

// Harnesses lists the harness entry points (functions named VF_*) of the loaded packages.
func (P *Program) Harnesses() []*ssa.Function {
	var res []*ssa.Function
	for _, sp := range P.Pkgs {
		for name, m := range sp.Members {
			if fn, ok := m.(*ssa.Function); ok && strings.HasPrefix(name, "VF_") {
				res = append(res, fn)
			}
		}
	}
	sort.Slice(res, func(i, j int) bool { return res[i].Name() < res[j].Name() })
	return res
}
