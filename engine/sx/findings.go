package sx

import (
	"encoding/json"
	"os"
	"strings"
)

// Finding is one entry of /verif/known_findings.json.
type Finding struct {
	Status   string   `json:"status"` // "open" or "fixed"
	Property string   `json:"property"`
	Harness  string   `json:"harness"` // harness name or prefix ending in '*'
	Kind     string   `json:"kind"`    // verdict kind: ASSERT PANIC DEADLOCK UNWIND ALLOC
	Label    string   `json:"label"`   // assertion label / panic kind ("" = any)
	Func     string   `json:"func"`    // function suffix for PANIC sites ("" = any)
	Class    string   `json:"class,omitempty"` // SMT-LIB predicate over the harness's named inputs; "" = whole site
	Witness  []string `json:"witness"`
	What     string   `json:"what"`
	Commit   string   `json:"commit,omitempty"`
}

type KnownFindings struct {
	Findings []Finding `json:"findings"`
}

func LoadFindings(path string) (*KnownFindings, error) {
	kf := &KnownFindings{}
	data, err := os.ReadFile(path)
	if err != nil {
		if os.IsNotExist(err) {
			return kf, nil
		}
		return nil, err
	}
	if err := json.Unmarshal(data, kf); err != nil {
		return nil, err
	}
	return kf, nil
}

func harnessMatch(pat, name string) bool {
	if strings.HasSuffix(pat, "*") {
		return strings.HasPrefix(name, strings.TrimSuffix(pat, "*"))
	}
	return pat == name
}

// Candidates returns the open findings whose site matches the verdict.
func (kf *KnownFindings) Candidates(property, harness string, v Verdict) []*Finding {
	var res []*Finding
	if kf == nil {
		return nil
	}
	for i := range kf.Findings {
		f := &kf.Findings[i]
		if f.Status != "open" {
			continue
		}
		if f.Property != property || !harnessMatch(f.Harness, harness) || f.Kind != v.Kind {
			continue
		}
		if f.Label != "" && f.Label != v.Label {
			continue
		}
		if f.Func != "" && !strings.HasSuffix(v.Func, f.Func) {
			continue
		}
		res = append(res, f)
	}
	return res
}
