package sx

import (
	"fmt"
	"go/types"
	"strconv"
	"strings"

	"golang.org/x/tools/go/ssa"
)

// An intrinsic returns (result, handled). handled=false falls through to the SSA body.
type intrinsic func(in *Interp, th *Thread, fn *ssa.Function, args []Value) (Value, bool)

var intrinsics = map[string]intrinsic{}

func reg(names string, f intrinsic) {
	for _, n := range strings.Fields(names) {
		intrinsics[n] = f
	}
}

func noop(in *Interp, th *Thread, fn *ssa.Function, args []Value) (Value, bool) {
	return in.zeroResults(fn), true
}

func (in *Interp) str(v Value) Str {
	s, ok := v.(Str)
	if !ok {
		panic(abortf("expected string, got %T", v))
	}
	return s
}

func (in *Interp) concreteStr(v Value, what string) string {
	s := in.str(v)
	if !s.IsConcrete() {
		panic(abortf("%s: symbolic string where a concrete one is required", what))
	}
	return s.S
}

func (in *Interp) i64(v int64) *Term { return in.ts.BVConst(64, uint64(v)) }

func (in *Interp) bytesOf(v Value) []*Term {
	switch x := v.(type) {
	case Str:
		return in.strBytes(x)
	case Slice:
		if x.Arr.opaque() {
			panic(opaqueUse("byte-level use of numeric string"))
		}
		b := make([]*Term, x.Len)
		for i := range b {
			b[i] = x.Arr.V[x.Off+i].(*Term)
		}
		return b
	}
	panic(abortf("bytesOf %T", v))
}

func (in *Interp) newByteSlice(b []*Term) Slice {
	arr := &Agg{V: make([]Value, len(b))}
	for i, t := range b {
		arr.V[i] = t
	}
	return Slice{Arr: arr, Len: len(b), Cap: len(b)}
}

func (in *Interp) strSliceVal(ss []Str) Slice {
	arr := &Agg{V: make([]Value, len(ss))}
	for i, s := range ss {
		arr.V[i] = s
	}
	return Slice{Arr: arr, Len: len(ss), Cap: len(ss)}
}

// indexOf forks over the first position at which sep occurs in b (or -1).
func (in *Interp) indexOf(b, sep []*Term, from int) int {
	if len(sep) == 0 {
		return from
	}
	for i := from; i+len(sep) <= len(b); i++ {
		eq := in.ts.True
		for j := range sep {
			eq = in.ts.And(eq, in.ts.Eq(b[i+j], sep[j]))
		}
		if in.branch(eq, "index") {
			return i
		}
	}
	return -1
}

func lowerByte(in *Interp, b *Term) *Term {
	ts := in.ts
	isUp := ts.And(ts.Cmp(OULe, ts.BVConst(8, 'A'), b), ts.Cmp(OULe, b, ts.BVConst(8, 'Z')))
	return ts.Ite(isUp, ts.Bin(OAdd, b, ts.BVConst(8, 32)), b)
}

func upperByte(in *Interp, b *Term) *Term {
	ts := in.ts
	isLo := ts.And(ts.Cmp(OULe, ts.BVConst(8, 'a'), b), ts.Cmp(OULe, b, ts.BVConst(8, 'z')))
	return ts.Ite(isLo, ts.Bin(OSub, b, ts.BVConst(8, 32)), b)
}

// asciiOnly restricts the path to ASCII content for b (assumption recorded in evidence).
func (in *Interp) asciiOnly(b []*Term, what string) {
	ok := in.ts.True
	for _, t := range b {
		ok = in.ts.And(ok, in.ts.Cmp(OULt, t, in.ts.BVConst(8, 0x80)))
	}
	if ok.IsTrue() {
		return
	}
	if ok.IsFalse() || !in.branch(ok, "ascii") {
		panic(pathEnd{Verdict{Kind: "ASSUME", Label: "non-ASCII bytes through " + what + " (outside bound)"}})
	}
}

func init() {
	// ---- logging / printing: no effect
	reg(`github.com/innovationb1ue/RedisGO/logger.Debug github.com/innovationb1ue/RedisGO/logger.Info
	     github.com/innovationb1ue/RedisGO/logger.Warning github.com/innovationb1ue/RedisGO/logger.Error
	     github.com/innovationb1ue/RedisGO/logger.Panic github.com/innovationb1ue/RedisGO/logger.Disable
	     github.com/innovationb1ue/RedisGO/logger.SetUp
	     log.Println log.Printf log.Print fmt.Println fmt.Printf fmt.Print
	     (*log.Logger).Println (*log.Logger).Printf (*log.Logger).Print (*log.Logger).SetPrefix (*log.Logger).SetOutput
	     (*log.Logger).Output (*log.Logger).output (*log.Logger).SetFlags
	     runtime.Gosched runtime.GC runtime.KeepAlive runtime.SetFinalizer`, noop)
	reg(`log.Fatal log.Fatalf log.Fatalln (*log.Logger).Fatal (*log.Logger).Fatalf (*log.Logger).Fatalln os.Exit`,
		func(in *Interp, th *Thread, fn *ssa.Function, args []Value) (Value, bool) {
			panic(pathEnd{Verdict{Kind: "PANIC", Label: "process exit via " + fn.String(), Func: userFrame(th.top), Pos: in.posOf(th.top)}})
		})
	reg(`log.Panic log.Panicf log.Panicln (*log.Logger).Panic (*log.Logger).Panicf (*log.Logger).Panicln`,
		func(in *Interp, th *Thread, fn *ssa.Function, args []Value) (Value, bool) {
			in.goPanicVal(th, "log.Panic", Iface{T: types.Typ[types.String], V: Str{S: "log.Panic"}})
			return nil, true
		})

	// ---- fmt
	reg(`fmt.Sprintf`, func(in *Interp, th *Thread, fn *ssa.Function, args []Value) (Value, bool) {
		f := in.str(args[0])
		return in.sprintf(f, in.stringerize(th, f, args[1].(Slice))), true
	})
	reg(`fmt.Sprint fmt.Sprintln`, func(in *Interp, th *Thread, fn *ssa.Function, args []Value) (Value, bool) {
		return in.sprint(th, args[0].(Slice), fn.Name() == "Sprintln"), true
	})
	reg(`fmt.Errorf`, func(in *Interp, th *Thread, fn *ssa.Function, args []Value) (Value, bool) {
		f := in.str(args[0])
		s := in.sprintf(f, in.stringerize(th, f, args[1].(Slice)))
		return in.newError(s), true
	})
	// printing into an in-memory buffer (the String()/Describe methods of the etcd tree) writes the text;
	// printing anywhere else (stdout, files, sockets) has no effect
	reg(`fmt.Fprintf fmt.Fprint fmt.Fprintln`, func(in *Interp, th *Thread, fn *ssa.Function, args []Value) (Value, bool) {
		w, ok := args[0].(Iface)
		if !ok || w.T == nil {
			return in.zeroResults(fn), true
		}
		ts := w.T.String()
		if ts != "*strings.Builder" && ts != "*bytes.Buffer" {
			return in.zeroResults(fn), true
		}
		var text Str
		switch fn.Name() {
		case "Fprintf":
			f := in.str(args[1])
			text = in.sprintf(f, in.stringerize(th, f, args[2].(Slice)))
		case "Fprint":
			text = in.sprint(th, args[1].(Slice), false)
		default:
			text = in.sprint(th, args[1].(Slice), true)
		}
		sel := in.P.Prog.MethodSets.MethodSet(w.T).Lookup(nil, "WriteString")
		if sel == nil {
			return in.zeroResults(fn), true
		}
		m := in.P.Prog.MethodValue(sel)
		in.callSync(th, FuncV{Fn: m}, []Value{w.V, text})
		return Tuple{in.i64(int64(text.Len())), Iface{}}, true
	})

	// ---- strings / bytes with assembly leaves
	reg(`strings.ToLower bytes.ToLower`, func(in *Interp, th *Thread, fn *ssa.Function, args []Value) (Value, bool) {
		if s, ok := args[0].(Str); ok && s.B == nil && s.Num == nil {
			return Str{S: strings.ToLower(s.S)}, true
		}
		if s, ok := args[0].(Str); ok && s.Num != nil {
			return s, true
		}
		b := in.bytesOf(args[0])
		in.asciiOnly(b, "strings.ToLower")
		r := make([]*Term, len(b))
		for i, t := range b {
			r[i] = lowerByte(in, t)
		}
		if _, ok := args[0].(Str); ok {
			return in.mkStr(r), true
		}
		return in.newByteSlice(r), true
	})
	reg(`strings.ToUpper bytes.ToUpper`, func(in *Interp, th *Thread, fn *ssa.Function, args []Value) (Value, bool) {
		if s, ok := args[0].(Str); ok && s.B == nil && s.Num == nil {
			return Str{S: strings.ToUpper(s.S)}, true
		}
		if s, ok := args[0].(Str); ok && s.Num != nil {
			return s, true
		}
		b := in.bytesOf(args[0])
		in.asciiOnly(b, "strings.ToUpper")
		r := make([]*Term, len(b))
		for i, t := range b {
			r[i] = upperByte(in, t)
		}
		if _, ok := args[0].(Str); ok {
			return in.mkStr(r), true
		}
		return in.newByteSlice(r), true
	})
	reg(`strings.EqualFold`, func(in *Interp, th *Thread, fn *ssa.Function, args []Value) (Value, bool) {
		a, b := in.str(args[0]), in.str(args[1])
		if a.IsConcrete() && b.IsConcrete() {
			return in.ts.Bool(strings.EqualFold(a.S, b.S)), true
		}
		ab, bb := in.strBytes(a), in.strBytes(b)
		if len(ab) != len(bb) {
			return in.ts.False, true
		}
		in.asciiOnly(ab, "strings.EqualFold")
		in.asciiOnly(bb, "strings.EqualFold")
		r := in.ts.True
		for i := range ab {
			r = in.ts.And(r, in.ts.Eq(lowerByte(in, ab[i]), lowerByte(in, bb[i])))
		}
		return r, true
	})
	reg(`strings.Index bytes.Index`, func(in *Interp, th *Thread, fn *ssa.Function, args []Value) (Value, bool) {
		return in.i64(int64(in.indexOf(in.bytesOf(args[0]), in.bytesOf(args[1]), 0))), true
	})
	reg(`strings.Contains bytes.Contains`, func(in *Interp, th *Thread, fn *ssa.Function, args []Value) (Value, bool) {
		return in.ts.Bool(in.indexOf(in.bytesOf(args[0]), in.bytesOf(args[1]), 0) >= 0), true
	})
	reg(`strings.IndexByte bytes.IndexByte internal/bytealg.IndexByte internal/bytealg.IndexByteString`, func(in *Interp, th *Thread, fn *ssa.Function, args []Value) (Value, bool) {
		return in.i64(int64(in.indexOf(in.bytesOf(args[0]), []*Term{in.asTerm(args[1])}, 0))), true
	})
	reg(`internal/bytealg.IndexString internal/bytealg.Index`, func(in *Interp, th *Thread, fn *ssa.Function, args []Value) (Value, bool) {
		return in.i64(int64(in.indexOf(in.bytesOf(args[0]), in.bytesOf(args[1]), 0))), true
	})
	reg(`internal/bytealg.CountString internal/bytealg.Count`, func(in *Interp, th *Thread, fn *ssa.Function, args []Value) (Value, bool) {
		b := in.bytesOf(args[0])
		c := in.asTerm(args[1])
		n := 0
		for _, t := range b {
			if in.branch(in.ts.Eq(t, c), "count") {
				n++
			}
		}
		return in.i64(int64(n)), true
	})
	reg(`internal/bytealg.Equal bytes.Equal`, func(in *Interp, th *Thread, fn *ssa.Function, args []Value) (Value, bool) {
		a, b := in.bytesOf(args[0]), in.bytesOf(args[1])
		if len(a) != len(b) {
			return in.ts.False, true
		}
		r := in.ts.True
		for i := range a {
			r = in.ts.And(r, in.ts.Eq(a[i], b[i]))
		}
		return r, true
	})
	reg(`internal/bytealg.MakeNoZero`, func(in *Interp, th *Thread, fn *ssa.Function, args []Value) (Value, bool) {
		n := int(in.concreteInt(args[0], true, "MakeNoZero"))
		b := make([]*Term, n)
		z := in.ts.BVConst(8, 0)
		for i := range b {
			b[i] = z
		}
		return in.newByteSlice(b), true
	})
	reg(`strings.Split`, func(in *Interp, th *Thread, fn *ssa.Function, args []Value) (Value, bool) {
		s, sep := in.str(args[0]), in.str(args[1])
		if s.IsConcrete() && sep.IsConcrete() {
			parts := strings.Split(s.S, sep.S)
			ss := make([]Str, len(parts))
			for i, p := range parts {
				ss[i] = Str{S: p}
			}
			return in.strSliceVal(ss), true
		}
		b, sp := in.strBytes(s), in.strBytes(sep)
		if len(sp) == 0 {
			panic(abortf("strings.Split with empty separator on symbolic string"))
		}
		var out []Str
		from := 0
		for {
			i := in.indexOf(b, sp, from)
			if i < 0 {
				out = append(out, in.mkStr(b[from:]))
				break
			}
			out = append(out, in.mkStr(b[from:i]))
			from = i + len(sp)
		}
		return in.strSliceVal(out), true
	})
	reg(`strings.Join`, func(in *Interp, th *Thread, fn *ssa.Function, args []Value) (Value, bool) {
		sl := args[0].(Slice)
		sep := in.str(args[1])
		res := Str{}
		for i := 0; i < sl.Len; i++ {
			if i > 0 {
				res = in.strConcat(res, sep)
			}
			res = in.strConcat(res, sl.Arr.V[sl.Off+i].(Str))
		}
		return res, true
	})
	reg(`strings.Clone internal/stringslite.Clone`, func(in *Interp, th *Thread, fn *ssa.Function, args []Value) (Value, bool) {
		return args[0], true
	})
	reg(`strings.Compare bytes.Compare internal/bytealg.Compare`, func(in *Interp, th *Thread, fn *ssa.Function, args []Value) (Value, bool) {
		a := in.mkStr(in.bytesOf(args[0]))
		b := in.mkStr(in.bytesOf(args[1]))
		lt := in.strLess(a, b)
		gt := in.strLess(b, a)
		ts := in.ts
		return ts.Ite(lt, ts.BVConst(64, ^uint64(0)), ts.Ite(gt, ts.BVConst(64, 1), ts.BVConst(64, 0))), true
	})
	reg(`(*strings.Builder).String`, func(in *Interp, th *Thread, fn *ssa.Function, args []Value) (Value, bool) {
		p := args[0].(Ptr)
		st := p.Base.V[p.Idx].(*Agg)
		buf := st.V[1].(Slice)
		return in.mkStr(in.bytesOf(buf)), true
	})
	reg(`unsafe.String`, func(in *Interp, th *Thread, fn *ssa.Function, args []Value) (Value, bool) {
		p := args[0].(Ptr)
		n := int(in.concreteInt(args[1], true, "unsafe.String"))
		if n == 0 {
			return Str{}, true
		}
		b := make([]*Term, n)
		for i := range b {
			b[i] = p.Base.V[p.Idx+i].(*Term)
		}
		return in.mkStr(b), true
	})
	reg(`unsafe.SliceData`, func(in *Interp, th *Thread, fn *ssa.Function, args []Value) (Value, bool) {
		s := args[0].(Slice)
		if s.Arr == nil {
			return Ptr{}, true
		}
		return Ptr{Base: s.Arr, Idx: s.Off}, true
	})

	// ---- strconv on numeric strings (vfNumStr) and floats
	reg(`strconv.Atoi`, func(in *Interp, th *Thread, fn *ssa.Function, args []Value) (Value, bool) {
		s := in.str(args[0])
		if s.Num == nil {
			return nil, false
		}
		return Tuple{s.Num, Iface{}}, true
	})
	reg(`strconv.ParseInt`, func(in *Interp, th *Thread, fn *ssa.Function, args []Value) (Value, bool) {
		s := in.str(args[0])
		if s.Num == nil {
			return nil, false
		}
		base := in.concreteInt(args[1], true, "ParseInt base")
		bits := in.concreteInt(args[2], true, "ParseInt bits")
		if base != 10 || (bits != 64 && bits != 0) {
			panic(abortf("ParseInt(numstr, %d, %d)", base, bits))
		}
		return Tuple{s.Num, Iface{}}, true
	})
	reg(`strconv.ParseUint`, func(in *Interp, th *Thread, fn *ssa.Function, args []Value) (Value, bool) {
		s := in.str(args[0])
		if s.Num == nil {
			return nil, false
		}
		// a negative numeric string is a syntax error for ParseUint
		neg := in.ts.Cmp(OSLt, s.Num, in.i64(0))
		if in.branch(neg, "parseuint-neg") {
			return Tuple{in.ts.BVConst(64, 0), in.newError(Str{S: "strconv.ParseUint: invalid syntax"})}, true
		}
		return Tuple{s.Num, Iface{}}, true
	})
	reg(`strconv.FormatInt`, func(in *Interp, th *Thread, fn *ssa.Function, args []Value) (Value, bool) {
		n := in.asTerm(args[0])
		base := in.asTerm(args[1])
		if n.IsConst() && base.IsConst() {
			return Str{S: strconv.FormatInt(int64(n.C), int(base.C))}, true
		}
		if base.IsConst() && base.C == 10 {
			return Str{Num: n}, true
		}
		return nil, false
	})
	reg(`strconv.Itoa`, func(in *Interp, th *Thread, fn *ssa.Function, args []Value) (Value, bool) {
		n := in.asTerm(args[0])
		if n.IsConst() {
			return Str{S: strconv.Itoa(int(int64(n.C)))}, true
		}
		return Str{Num: n}, true
	})
	reg(`strconv.ParseFloat`, func(in *Interp, th *Thread, fn *ssa.Function, args []Value) (Value, bool) {
		return in.parseFloat(in.str(args[0])), true
	})
	reg(`strconv.FormatFloat`, func(in *Interp, th *Thread, fn *ssa.Function, args []Value) (Value, bool) {
		f := in.asTerm(args[0])
		if f.IsConst() {
			fm := byte(in.concreteInt(args[1], false, "fmt"))
			prec := int(in.concreteInt(args[2], true, "prec"))
			bits := int(in.concreteInt(args[3], true, "bits"))
			return Str{S: strconv.FormatFloat(f.F64(), fm, prec, bits)}, true
		}
		return in.floatStr(f), true
	})

	// ---- key hashing: exact (FNV from SSA) by default; with vfOpt("hashuf",1) an uninterpreted
	// function of the key bytes for symbolic keys (placement is then any consistent assignment)
	reg(`github.com/innovationb1ue/RedisGO/util.HashKey`, func(in *Interp, th *Thread, fn *ssa.Function, args []Value) (Value, bool) {
		s := in.str(args[0])
		if !s.IsConcrete() && !in.hashUF && s.Num == nil && s.FloatOf == nil && !in.inPure {
			// exact hashing of a key with a single symbolic byte: the real function is run concretely
			// for each of the 256 byte values and the result is a table lookup on that byte
			if t, ok := in.tabulate1(fn, s); ok {
				return t, true
			}
		}
		if s.IsConcrete() || !in.hashUF {
			if s.Num != nil || s.FloatOf != nil {
				if !in.hashUF {
					panic(pathEnd{Verdict{Kind: "ASSUME", Label: "numeric text used as a key with exact hashing (outside bound)"}})
				}
			} else {
				return nil, false
			}
		}
		var h *Term
		switch {
		case s.Num != nil:
			h = in.ts.UF("hk_num", BV(32), s.Num)
		case s.FloatOf != nil:
			h = in.ts.UF("hk_flt", BV(32), s.FloatOf)
		default:
			b := in.strBytes(s)
			h = in.ts.UF(fmt.Sprintf("hk_%d", len(b)), BV(32), b...)
		}
		return in.ts.Zext(h, 64), true
	})

	// ---- misc
	reg(`github.com/google/uuid.NewString`, func(in *Interp, th *Thread, fn *ssa.Function, args []Value) (Value, bool) {
		in.uuidN++
		return Str{S: fmt.Sprintf("uuid-%04d-%d", in.uuidN, th.id)}, true
	})
	reg(`math.Abs`, func(in *Interp, th *Thread, fn *ssa.Function, args []Value) (Value, bool) {
		return in.ts.FAbs(in.asTerm(args[0])), true
	})
	reg(`math.IsNaN`, func(in *Interp, th *Thread, fn *ssa.Function, args []Value) (Value, bool) {
		return in.ts.FIsNaN(in.asTerm(args[0])), true
	})
	reg(`math.IsInf`, func(in *Interp, th *Thread, fn *ssa.Function, args []Value) (Value, bool) {
		f := in.asTerm(args[0])
		sign := in.asTerm(args[1])
		ts := in.ts
		inf := ts.FIsInf(f)
		pos := ts.FCmp(OFLt, ts.F64Const(0), f)
		zero := ts.BVConst(int(sign.Sort.W), 0)
		sPos := ts.Cmp(OSLt, zero, sign)
		sNeg := ts.Cmp(OSLt, sign, zero)
		r := ts.And(inf, ts.Or(ts.And(ts.Not(sPos), ts.Not(sNeg)), ts.Or(ts.And(sPos, pos), ts.And(sNeg, ts.Not(pos)))))
		return r, true
	})
	reg(`math.Float64frombits`, func(in *Interp, th *Thread, fn *ssa.Function, args []Value) (Value, bool) {
		return in.ts.BitsToF(in.asTerm(args[0]), F64Sort), true
	})
	reg(`math.Float64bits`, func(in *Interp, th *Thread, fn *ssa.Function, args []Value) (Value, bool) {
		f := in.asTerm(args[0])
		if f.IsConst() {
			return in.ts.BVConst(64, f.C), true
		}
		panic(abortf("math.Float64bits of symbolic float"))
	})
	reg(`math.Inf`, func(in *Interp, th *Thread, fn *ssa.Function, args []Value) (Value, bool) {
		return nil, false
	})
}

// sprintf: exact when all operands are concrete, a placeholder otherwise (only error texts and logs
// are built this way in the code under test; the stream-ID format "%d-%d" is handled exactly).
func (in *Interp) sprintf(format Str, args Slice) Str {
	if !format.IsConcrete() {
		return Str{S: "<fmt>"}
	}
	var gargs []interface{}
	allConc := true
	for i := 0; i < args.Len; i++ {
		iv := args.Arr.V[args.Off+i].(Iface)
		g, ok := in.toGo(iv)
		if !ok {
			allConc = false
			break
		}
		gargs = append(gargs, g)
	}
	if allConc {
		return Str{S: fmt.Sprintf(format.S, gargs...)}
	}
	// exact handling of simple verbs over symbolic strings / byte slices: %s and %v with strings
	if r, ok := in.sprintfSym(format.S, args); ok {
		return r
	}
	return Str{S: "<fmt:" + format.S + ">"}
}

// stringerize replaces, for the %s and %v verbs of a concrete format, operands whose dynamic type is
// declared in the code under test and has a String() string / Error() string method by the result of
// calling that method (from its SSA), as fmt does.
func (in *Interp) stringerize(th *Thread, format Str, args Slice) Slice {
	if !format.IsConcrete() || args.Len == 0 {
		return args
	}
	var verbs []byte
	f := format.S
	for i := 0; i < len(f); i++ {
		if f[i] != '%' {
			continue
		}
		i++
		for i < len(f) && strings.IndexByte("+-# 0123456789.", f[i]) >= 0 {
			i++
		}
		if i < len(f) && f[i] != '%' {
			verbs = append(verbs, f[i])
		}
	}
	want := make([]bool, args.Len)
	any := false
	for i := range want {
		want[i] = i < len(verbs) && (verbs[i] == 's' || verbs[i] == 'v')
		any = any || want[i]
	}
	if !any {
		return args
	}
	return in.stringerizeSel(th, args, want)
}

func (in *Interp) stringerizeSel(th *Thread, args Slice, want []bool) Slice {
	var out *Agg
	for i := 0; i < args.Len; i++ {
		if want != nil && !want[i] {
			continue
		}
		iv, ok := args.Arr.V[args.Off+i].(Iface)
		if !ok || iv.T == nil {
			continue
		}
		var named *types.Named
		switch t := iv.T.(type) {
		case *types.Named:
			named = t
		case *types.Pointer:
			named, _ = t.Elem().(*types.Named)
			if p, ok := iv.V.(Ptr); ok && p.Base == nil {
				continue // nil pointer receiver: fmt prints <nil>
			}
		}
		if named == nil || named.Obj().Pkg() == nil {
			continue
		}
		path := named.Obj().Pkg().Path()
		if !strings.HasPrefix(path, "go.etcd.io/etcd/") && !strings.HasPrefix(path, "github.com/innovationb1ue/RedisGO") {
			continue
		}
		var m *ssa.Function
		for _, name := range []string{"Error", "String"} {
			sel := in.P.Prog.MethodSets.MethodSet(iv.T).Lookup(nil, name)
			if sel == nil {
				continue
			}
			if c := in.P.Prog.MethodValue(sel); c != nil && c.Signature.Params().Len() == 0 && c.Signature.Results().Len() == 1 && types.Identical(c.Signature.Results().At(0).Type(), types.Typ[types.String]) {
				m = c
				break
			}
		}
		if m == nil || len(m.Blocks) == 0 {
			continue
		}
		res, ok := in.callSync(th, FuncV{Fn: m}, []Value{iv.V}).(Str)
		if !ok {
			continue
		}
		if out == nil {
			out = &Agg{V: append([]Value(nil), args.Arr.V[args.Off:args.Off+args.Len]...)}
		}
		out.V[i] = Iface{T: types.Typ[types.String], V: res}
	}
	if out == nil {
		return args
	}
	return Slice{Arr: out, Off: 0, Len: args.Len, Cap: args.Len}
}

// sprint models fmt.Sprint / Sprintln: exact when every operand is concrete (strings stay adjacent,
// other operands are separated by a space, as fmt does), a placeholder otherwise.
func (in *Interp) sprint(th *Thread, args Slice, ln bool) Str {
	orig := args
	args = in.stringerizeSel(th, args, nil)
	var gargs []interface{}
	for i := 0; i < args.Len; i++ {
		iv, ok := args.Arr.V[args.Off+i].(Iface)
		if !ok {
			return Str{S: "<fmt.Sprint>"}
		}
		g, ok := in.toGo(iv)
		if !ok {
			return Str{S: "<fmt.Sprint>"}
		}
		if s, isStr := g.(string); isStr {
			// an operand that was a Stringer counts as a non-string operand for fmt's spacing rule
			if oi, ok := orig.Arr.V[orig.Off+i].(Iface); ok && oi.T != nil && !types.Identical(oi.T.Underlying(), types.Typ[types.String]) {
				g = sprintStringer(s)
			}
		}
		gargs = append(gargs, g)
	}
	if ln {
		return Str{S: fmt.Sprintln(gargs...)}
	}
	return Str{S: fmt.Sprint(gargs...)}
}

type sprintStringer string

func (s sprintStringer) String() string { return string(s) }

func (in *Interp) sprintfSym(format string, args Slice) (Str, bool) {
	res := Str{}
	ai := 0
	for i := 0; i < len(format); i++ {
		c := format[i]
		if c != '%' {
			res = in.strConcat(res, Str{S: string(c)})
			continue
		}
		i++
		if i >= len(format) {
			return Str{}, false
		}
		switch format[i] {
		case '%':
			res = in.strConcat(res, Str{S: "%"})
		case 's', 'v', 'd':
			if ai >= args.Len {
				return Str{}, false
			}
			iv := args.Arr.V[args.Off+ai].(Iface)
			ai++
			switch x := iv.V.(type) {
			case Str:
				if x.Num != nil {
					return Str{}, false
				}
				res = in.strConcat(res, x)
			case Slice:
				if format[i] != 's' {
					return Str{}, false
				}
				if b, ok := iv.T.Underlying().(*types.Slice); !ok || !isByte(b.Elem()) {
					return Str{}, false
				}
				res = in.strConcat(res, in.mkStr(in.bytesOf(x)))
			case *Term:
				if !x.IsConst() {
					if format[i] == 'd' && x.Sort.K == SBV && x.Sort.W == 64 {
						d, ok := in.decimalBytes(x, isSigned(iv.T))
						if !ok {
							return Str{}, false
						}
						res = in.strConcat(res, in.mkStr(d))
						continue
					}
					return Str{}, false
				}
				g, ok := in.toGo(iv)
				if !ok {
					return Str{}, false
				}
				res = in.strConcat(res, Str{S: fmt.Sprintf("%"+string(format[i]), g)})
			default:
				return Str{}, false
			}
		default:
			return Str{}, false
		}
	}
	return res, true
}

func isByte(t types.Type) bool {
	b, ok := t.Underlying().(*types.Basic)
	return ok && b.Kind() == types.Uint8
}

// toGo converts a concrete interface-held value to a native Go value for formatting.
func (in *Interp) toGo(iv Iface) (interface{}, bool) {
	if iv.T == nil {
		return nil, true
	}
	switch x := iv.V.(type) {
	case Str:
		if !x.IsConcrete() {
			return nil, false
		}
		return x.S, true
	case *Term:
		if !x.IsConst() {
			return nil, false
		}
		switch x.Sort.K {
		case SBool:
			return x.C == 1, true
		case SF64, SF32:
			return x.F64(), true
		}
		if isSigned(iv.T) {
			return sext(x.C, x.Sort.W), true
		}
		return x.C, true
	case Slice:
		if s, ok := iv.T.Underlying().(*types.Slice); ok && isByte(s.Elem()) {
			if x.Arr.opaque() {
				return nil, false
			}
			buf := make([]byte, x.Len)
			for i := range buf {
				t := x.Arr.V[x.Off+i].(*Term)
				if !t.IsConst() {
					return nil, false
				}
				buf[i] = byte(t.C)
			}
			return buf, true
		}
		return "<slice>", true
	case Ptr:
		// error values and Stringers: give their message when it is an errors.errorString
		if x.Base != nil {
			if st, ok := x.Base.V[x.Idx].(*Agg); ok && len(st.V) == 1 {
				if s, ok := st.V[0].(Str); ok && s.IsConcrete() {
					return s.S, true
				}
			}
		}
		return "<ptr>", true
	case Iface:
		return in.toGo(x)
	}
	return "<value>", true
}

// newError builds an error value of dynamic type *errors.errorString.
func (in *Interp) newError(msg Str) Value {
	pkg := in.P.Prog.ImportedPackage("errors")
	if pkg == nil {
		panic(abortf("package errors not loaded"))
	}
	tn := pkg.Type("errorString")
	pt := types.NewPointer(tn.Type())
	cell := &Agg{V: []Value{&Agg{V: []Value{msg}}}}
	return Iface{T: pt, V: Ptr{Base: cell}}
}

// ---------------------------------------------------------------------------
// float <-> string abstraction: uninterpreted but functional

// parseFloat models strconv.ParseFloat(s, 64): concrete strings are parsed exactly; symbolic strings
// yield (pf(s), pfok(s)) where the result ranges over every float64 (all are reachable outputs).
func (in *Interp) parseFloat(s Str) Value {
	if s.Num != nil {
		if s.Num.IsConst() {
			return Tuple{in.ts.IntToF(s.Num, true, F64Sort), Iface{}}
		}
		// the float value of a symbolic integer text: over-approximated by any finite float in the
		// int64 range (keeps 64-bit int->float conversion out of the solver)
		f := in.fresh("numf", "aux", F64Sort)
		lim := in.ts.F64Const(9.3e18)
		in.assume(in.ts.And(in.ts.FCmp(OFLe, in.ts.FNeg(lim), f), in.ts.FCmp(OFLe, f, lim)))
		return Tuple{f, Iface{}}
	}
	if s.FloatOf != nil {
		return Tuple{s.FloatOf, Iface{}}
	}
	if s.IsConcrete() {
		f, err := strconv.ParseFloat(s.S, 64)
		if err != nil {
			return Tuple{in.ts.F64Const(f), in.newError(Str{S: "strconv.ParseFloat: " + err.Error()})}
		}
		return Tuple{in.ts.F64Const(f), Iface{}}
	}
	return in.parseFloatBytes(in.strBytes(s))
}

// floatStr is the opaque textual form of a symbolic float.
func (in *Interp) floatStr(f *Term) Str {
	return Str{FloatOf: f, S: "<float>"}
}

// parseFloatBytes: strconv.ParseFloat on byte-level symbolic text. Exact for length <= 2; longer
// texts get an uninterpreted (but functional) value and validity, so any float64 incl. NaN/Inf is a
// possible outcome (a counterexample through it must survive the native replay).
func (in *Interp) parseFloatBytes(b []*Term) Value {
	ts := in.ts
	errv := in.newError(Str{S: "strconv.ParseFloat: invalid syntax"})
	isDigit := func(t *Term) *Term {
		return ts.And(ts.Cmp(OULe, ts.BVConst(8, '0'), t), ts.Cmp(OULe, t, ts.BVConst(8, '9')))
	}
	// digit tables as ite-chains over constants: no floating-point arithmetic on symbolic values
	table := func(t *Term, f func(d int) float64) *Term {
		r := ts.F64Const(f(9))
		for d := 8; d >= 0; d-- {
			r = ts.Ite(ts.Eq(t, ts.BVConst(8, uint64('0'+d))), ts.F64Const(f(d)), r)
		}
		return r
	}
	dval := func(t *Term) *Term { return table(t, func(d int) float64 { return float64(d) }) }
	is := func(t *Term, c byte) *Term { return ts.Eq(t, ts.BVConst(8, uint64(c))) }
	switch len(b) {
	case 0:
		return Tuple{ts.F64Const(0), errv}
	case 1:
		if in.branch(isDigit(b[0]), "parsefloat") {
			return Tuple{dval(b[0]), Iface{}}
		}
		return Tuple{ts.F64Const(0), errv}
	case 2:
		dd := ts.And(isDigit(b[0]), isDigit(b[1]))
		pd := ts.And(is(b[0], '+'), isDigit(b[1]))
		md := ts.And(is(b[0], '-'), isDigit(b[1]))
		dp := ts.And(isDigit(b[0]), is(b[1], '.'))
		pt := ts.And(is(b[0], '.'), isDigit(b[1]))
		ok := ts.Or(dd, ts.Or(pd, ts.Or(md, ts.Or(dp, pt))))
		if !in.branch(ok, "parsefloat") {
			return Tuple{ts.F64Const(0), errv}
		}
		two := ts.F64Const(99)
		for d0 := 9; d0 >= 0; d0-- {
			d0 := d0
			two = ts.Ite(ts.Eq(b[0], ts.BVConst(8, uint64('0'+d0))), table(b[1], func(d int) float64 { return float64(10*d0 + d) }), two)
		}
		v := ts.Ite(dd, two,
			ts.Ite(pd, dval(b[1]),
				ts.Ite(md, table(b[1], func(d int) float64 { return -float64(d) }),
					ts.Ite(dp, dval(b[0]), table(b[1], func(d int) float64 { return float64(d) / 10 })))))
		return Tuple{v, Iface{}}
	}
	n := len(b)
	okT := ts.UF(fmt.Sprintf("pfok_%d", n), BoolSort, b...)
	if !in.branch(okT, "parsefloat") {
		return Tuple{ts.F64Const(0), errv}
	}
	return Tuple{ts.UF(fmt.Sprintf("pf_%d", n), F64Sort, b...), Iface{}}
}

// decimalBytes renders a symbolic 64-bit integer in decimal at byte level when it has at most four
// digits (the digit count is decided by forking on the value's range); larger magnitudes are outside
// the bound of byte-level formatted text.
func (in *Interp) decimalBytes(x *Term, signed bool) ([]*Term, bool) {
	ts := in.ts
	var out []*Term
	mag := x
	if signed && in.branch(ts.Cmp(OSLt, x, in.i64(0)), "fmt-neg") {
		out = append(out, ts.BVConst(8, '-'))
		mag = ts.Neg(x)
	}
	digits := 0
	for n, lim := 1, uint64(10); n <= 4; n, lim = n+1, lim*10 {
		if in.branch(ts.Cmp(OULt, mag, ts.BVConst(64, lim)), "fmt-digits") {
			digits = n
			break
		}
	}
	if digits == 0 {
		panic(pathEnd{Verdict{Kind: "ASSUME", Label: "symbolic integer with more than four digits in formatted text (outside bound)"}})
	}
	pow := []uint64{1, 10, 100, 1000}
	for i := digits - 1; i >= 0; i-- {
		var d *Term
		switch {
		case digits == 1:
			d = mag
		case i == digits-1:
			d = ts.Bin(OUDiv, mag, ts.BVConst(64, pow[i])) // the leading digit needs no modulo
		default:
			d = ts.Bin(OURem, ts.Bin(OUDiv, mag, ts.BVConst(64, pow[i])), ts.BVConst(64, 10))
		}
		out = append(out, ts.Bin(OAdd, ts.Extract(d, 7, 0), ts.BVConst(8, '0')))
	}
	return out, true
}

// tabulate1 evaluates the pure string->int function fn on s for every value of s's only symbolic byte
// (by running fn's SSA concretely 256 times) and returns the result as an ite-table over that byte.
func (in *Interp) tabulate1(fn *ssa.Function, s Str) (*Term, bool) {
	b := in.strBytes(s)
	pos := -1
	for i, t := range b {
		if !t.IsConst() {
			if pos >= 0 || t.Op != OVar {
				return nil, false
			}
			pos = i
		}
	}
	if pos < 0 {
		return nil, false
	}
	key := fmt.Sprintf("%s|%d|%x", fn.String(), pos, s.concreteShape())
	tab, ok := in.pureTabs[key]
	if !ok {
		buf := make([]byte, len(b))
		for i, t := range b {
			if i != pos {
				buf[i] = byte(t.C)
			}
		}
		tab = make([]*Term, 256)
		for v := 0; v < 256; v++ {
			buf[pos] = byte(v)
			r := in.evalPure(fn, []Value{Str{S: string(buf)}})
			t, isT := r.(*Term)
			if !isT || !t.IsConst() {
				return nil, false
			}
			tab[v] = t
		}
		in.pureTabs[key] = tab
	}
	return in.selectChain(tab, b[pos]), true
}

func (s Str) concreteShape() []byte {
	out := make([]byte, 0, len(s.B))
	for _, t := range s.B {
		if t.IsConst() {
			out = append(out, byte(t.C))
		} else {
			out = append(out, 0xAA, 0x55)
		}
	}
	return out
}

// evalPure runs fn on concrete arguments to completion on a scratch thread (no decisions, no effects
// on the path's threads) and returns its result.
func (in *Interp) evalPure(fn *ssa.Function, args []Value) Value {
	saved := in.cur
	savedPure := in.inPure
	in.inPure = true
	defer func() { in.cur = saved; in.inPure = savedPure }()
	th := &Thread{id: -1}
	in.cur = th
	in.pushFrame(th, fn, args, nil, -1, false)
	for th.top != nil {
		in.safeStep(th)
		if th.blocked != nil {
			panic(abortf("pure evaluation blocked"))
		}
	}
	return th.result
}
