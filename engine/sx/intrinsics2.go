package sx

import (
	"fmt"
	"strconv"
	"go/types"
	"strings"

	"golang.org/x/tools/go/ssa"
)

// ---------------------------------------------------------------------------
// the vf* harness API (matched by function name inside harness packages)

var vfIntrinsics = map[string]intrinsic{}

func (in *Interp) recordChoice(pub, kind string, v int64) {
	p := in.path
	n := p.nameN[pub]
	p.nameN[pub] = n + 1
	name := pub
	if n > 0 {
		name = fmt.Sprintf("%s.%d", pub, n)
	}
	p.vars = append(p.vars, nondetVar{Name: "", T: nil, Kind: kind, Pub: name, Conc: v})
}

func init() {
	vf := func(name string, f intrinsic) { vfIntrinsics[name] = f }
	vf("vfBool", func(in *Interp, th *Thread, fn *ssa.Function, a []Value) (Value, bool) {
		return in.fresh(in.concreteStr(a[0], "vf name"), "bool", BoolSort), true
	})
	vf("vfByte", func(in *Interp, th *Thread, fn *ssa.Function, a []Value) (Value, bool) {
		return in.fresh(in.concreteStr(a[0], "vf name"), "byte", BV(8)), true
	})
	vf("vfInt64", func(in *Interp, th *Thread, fn *ssa.Function, a []Value) (Value, bool) {
		return in.fresh(in.concreteStr(a[0], "vf name"), "int64", BV(64)), true
	})
	vf("vfUint64", func(in *Interp, th *Thread, fn *ssa.Function, a []Value) (Value, bool) {
		return in.fresh(in.concreteStr(a[0], "vf name"), "uint64", BV(64)), true
	})
	vf("vfFloat64", func(in *Interp, th *Thread, fn *ssa.Function, a []Value) (Value, bool) {
		return in.fresh(in.concreteStr(a[0], "vf name"), "float64", F64Sort), true
	})
	vf("vfInt", func(in *Interp, th *Thread, fn *ssa.Function, a []Value) (Value, bool) {
		lo := in.concreteInt(a[1], true, "vfInt lo")
		hi := in.concreteInt(a[2], true, "vfInt hi")
		t := in.fresh(in.concreteStr(a[0], "vf name"), "int64", BV(64))
		in.assume(in.ts.And(in.ts.Cmp(OSLe, in.i64(lo), t), in.ts.Cmp(OSLe, t, in.i64(hi))))
		return t, true
	})
	vf("vfChoice", func(in *Interp, th *Thread, fn *ssa.Function, a []Value) (Value, bool) {
		n := int(in.concreteInt(a[1], true, "vfChoice n"))
		k := in.choose(n, "vfChoice")
		in.recordChoice(in.concreteStr(a[0], "vf name"), "choice", int64(k))
		return in.i64(int64(k)), true
	})
	mkBytes := func(in *Interp, a []Value) []*Term {
		name := in.concreteStr(a[0], "vf name")
		lo := int(in.concreteInt(a[1], true, "min"))
		hi := int(in.concreteInt(a[2], true, "max"))
		n := lo + in.choose(hi-lo+1, "len")
		in.recordChoice(name+".len", "len", int64(n))
		b := make([]*Term, n)
		for i := range b {
			b[i] = in.fresh(fmt.Sprintf("%s[%d]", name, i), "byte", BV(8))
		}
		return b
	}
	vf("vfBytes", func(in *Interp, th *Thread, fn *ssa.Function, a []Value) (Value, bool) {
		return in.newByteSlice(mkBytes(in, a)), true
	})
	vf("vfString", func(in *Interp, th *Thread, fn *ssa.Function, a []Value) (Value, bool) {
		return in.mkStr(mkBytes(in, a)), true
	})
	vf("vfNumStr", func(in *Interp, th *Thread, fn *ssa.Function, a []Value) (Value, bool) {
		t := in.asTerm(a[0])
		return Slice{Arr: &Agg{Num: t}, Len: -1, Cap: -1}, true
	})
	vf("vfFloatStr", func(in *Interp, th *Thread, fn *ssa.Function, a []Value) (Value, bool) {
		t := in.asTerm(a[0])
		return Slice{Arr: &Agg{FloatOf: t}, Len: -1, Cap: -1}, true
	})
	vf("vfNumOf", func(in *Interp, th *Thread, fn *ssa.Function, a []Value) (Value, bool) {
		// vfNumOf(b []byte) (n int64, ok bool): the integer behind a numeric string
		switch x := a[0].(type) {
		case Slice:
			if x.Arr != nil && x.Arr.Num != nil {
				return Tuple{x.Arr.Num, in.ts.True}, true
			}
		case Str:
			if x.Num != nil {
				return Tuple{x.Num, in.ts.True}, true
			}
		}
		return Tuple{in.i64(0), in.ts.False}, true
	})
	vf("vfFloatOf", func(in *Interp, th *Thread, fn *ssa.Function, a []Value) (Value, bool) {
		switch x := a[0].(type) {
		case Slice:
			if x.Arr != nil && x.Arr.FloatOf != nil {
				return Tuple{x.Arr.FloatOf, in.ts.True}, true
			}
			if x.Arr != nil && x.Arr.Num != nil {
				return Tuple{in.ts.IntToF(x.Arr.Num, true, F64Sort), in.ts.True}, true
			}
			if b := in.bytesOf(x); true {
				s := in.mkStr(b)
				if s.IsConcrete() {
					if f, err := strconv.ParseFloat(s.S, 64); err == nil {
						return Tuple{in.ts.F64Const(f), in.ts.True}, true
					}
				}
			}
		}
		return Tuple{in.ts.F64Const(0), in.ts.False}, true
	})
	vf("vfCase", func(in *Interp, th *Thread, fn *ssa.Function, a []Value) (Value, bool) {
		// vfCase(name, word): word with the letter case of every letter symbolic (one bool each, no fork)
		name := in.concreteStr(a[0], "vf name")
		word := in.concreteStr(a[1], "vfCase word")
		b := make([]*Term, len(word))
		for i := 0; i < len(word); i++ {
			c := word[i]
			lo, up := c, c
			if c >= 'a' && c <= 'z' {
				up = c - 32
			} else if c >= 'A' && c <= 'Z' {
				lo = c + 32
			}
			if lo == up {
				b[i] = in.ts.BVConst(8, uint64(c))
				continue
			}
			bit := in.fresh(fmt.Sprintf("%s.up%d", name, i), "bool", BoolSort)
			b[i] = in.ts.Ite(bit, in.ts.BVConst(8, uint64(up)), in.ts.BVConst(8, uint64(lo)))
		}
		return in.newByteSlice(b), true
	})
	vf("vfIsOpaque", func(in *Interp, th *Thread, fn *ssa.Function, a []Value) (Value, bool) {
		x, ok := a[0].(Slice)
		return in.ts.Bool(ok && x.Arr.opaque()), true
	})
	vf("vfAssume", func(in *Interp, th *Thread, fn *ssa.Function, a []Value) (Value, bool) {
		in.assume(in.asTerm(a[0]))
		return nil, true
	})
	vf("vfAssert", func(in *Interp, th *Thread, fn *ssa.Function, a []Value) (Value, bool) {
		c := in.asTerm(a[0])
		label := in.concreteStr(a[1], "label")
		in.path.reached[label] = true
		if !in.branch(c, "assert:"+label) {
			pos := ""
			if th.top != nil {
				pos = in.posOf(th.top)
			}
			panic(pathEnd{Verdict{Kind: "ASSERT", Label: label, Pos: pos}})
		}
		return nil, true
	})
	vf("vfReach", func(in *Interp, th *Thread, fn *ssa.Function, a []Value) (Value, bool) {
		in.path.reached[in.concreteStr(a[0], "label")] = true
		return nil, true
	})
	vf("vfLenient", func(in *Interp, th *Thread, fn *ssa.Function, a []Value) (Value, bool) {
		in.path.lenient++
		return nil, true
	})
	vf("vfLocksHeld", func(in *Interp, th *Thread, fn *ssa.Function, a []Value) (Value, bool) {
		return in.i64(int64(in.locksHeld())), true
	})
	vf("vfLockDiscipline", func(in *Interp, th *Thread, fn *ssa.Function, a []Value) (Value, bool) {
		// vfLockDiscipline(stripes []*sync.RWMutex) int
		sl := a[0].(Slice)
		var ps []Ptr
		for i := 0; i < sl.Len; i++ {
			ps = append(ps, sl.Arr.V[sl.Off+i].(Ptr))
		}
		return in.i64(int64(in.lockDiscipline(ps))), true
	})
	vf("vfEvent", func(in *Interp, th *Thread, fn *ssa.Function, a []Value) (Value, bool) {
		s := in.str(a[0])
		if s.IsConcrete() {
			in.events = append(in.events, s.S)
		} else {
			in.events = append(in.events, "<sym>")
		}
		return nil, true
	})
	vf("vfEvents", func(in *Interp, th *Thread, fn *ssa.Function, a []Value) (Value, bool) {
		return Str{S: strings.Join(in.events, " ")}, true
	})
	vf("vfOpt", func(in *Interp, th *Thread, fn *ssa.Function, a []Value) (Value, bool) {
		name := in.concreteStr(a[0], "opt")
		v := in.concreteInt(a[1], true, "opt value")
		switch name {
		case "concurrent":
			in.concurrent = v != 0
		case "preempt":
			in.maxPreempt = int(v)
		case "timers":
			in.timersFire = v != 0
			in.maxTimerFires = int(v)
		case "maporder":
			in.mapOrder = v != 0
		case "alloccap":
			in.allocCap = v
		case "locktrace":
			in.lockTrace = v != 0
		case "racecheck":
			in.raceCheck = v != 0
		case "hashuf":
			in.hashUF = v != 0
		case "solver-soft-ms":
			// incremental per-query timeout after which a query is re-run one-shot
			in.solver.SoftMs = int(v)
		case "gauss":
			// add the row-reduced form of CRC equality systems (on by default)
			in.ts.noGauss = v == 0
		case "crc-top-class":
			// bound: every symbolic CRC value is assumed >= 2^28 (5-byte protobuf varint, 15/16 of all
			// values) so that record sizes do not fork five ways per record
			in.crcTop = v != 0
		case "hangcheck":
			in.path.reached["opt:hangcheck"] = true
		default:
			panic(abortf("unknown vfOpt %q", name))
		}
		return nil, true
	})
	vf("vfSpawn", func(in *Interp, th *Thread, fn *ssa.Function, a []Value) (Value, bool) {
		in.spawn(a[0].(FuncV), nil)
		return nil, true
	})
	vf("vfWaitAll", func(in *Interp, th *Thread, fn *ssa.Function, a []Value) (Value, bool) {
		// block the calling thread until every other thread is done or blocked forever
		if in.raceCheck {
			for _, t := range in.threads {
				if t != th && t.done && t.vc != nil {
					in.vcOf(th).join(t.vc)
				}
			}
		}
		for _, t := range in.threads {
			if t != th && !t.done {
				panic(blockSignal{why: "vfWaitAll", cond: func() bool {
					for _, t := range in.threads {
						if t != th && !t.done {
							return false
						}
					}
					return true
				}, passive: true})
			}
		}
		return nil, true
	})
	vf("vfSettle", func(in *Interp, th *Thread, fn *ssa.Function, a []Value) (Value, bool) {
		// block the caller until no other thread can run (each is done or blocked)
		for _, t := range in.threads {
			if t != th && in.runnable(t) {
				panic(blockSignal{why: "vfSettle", passive: true, cond: func() bool {
					for _, t := range in.threads {
						if t != th && in.runnable(t) {
							return false
						}
					}
					return true
				}})
			}
		}
		if in.raceCheck {
			for _, t := range in.threads {
				if t != th && t.vc != nil {
					in.vcOf(th).join(t.vc)
				}
			}
		}
		return nil, true
	})
	vf("vfYield", func(in *Interp, th *Thread, fn *ssa.Function, a []Value) (Value, bool) {
		in.syncPoint(th, "yield")
		return nil, true
	})
	vf("vfThreadsBlocked", func(in *Interp, th *Thread, fn *ssa.Function, a []Value) (Value, bool) {
		n := 0
		for _, t := range in.threads {
			if t != th && !t.done && !in.runnable(t) {
				n++
			}
		}
		return in.i64(int64(n)), true
	})
	vf("vfNow", func(in *Interp, th *Thread, fn *ssa.Function, a []Value) (Value, bool) {
		// vfNow() int64: take a clock reading (seconds)
		return in.now(), true
	})
	vf("vfSetClock", func(in *Interp, th *Thread, fn *ssa.Function, a []Value) (Value, bool) {
		// the next clock reading is exactly the given second
		in.clockForce = in.asTerm(a[0])
		return nil, true
	})
	vf("vfAnd", func(in *Interp, th *Thread, fn *ssa.Function, a []Value) (Value, bool) {
		return in.ts.And(in.asTerm(a[0]), in.asTerm(a[1])), true
	})
	vf("vfOr", func(in *Interp, th *Thread, fn *ssa.Function, a []Value) (Value, bool) {
		return in.ts.Or(in.asTerm(a[0]), in.asTerm(a[1])), true
	})
	vf("vfBytesEq", func(in *Interp, th *Thread, fn *ssa.Function, a []Value) (Value, bool) {
		x, y := a[0].(Slice), a[1].(Slice)
		if x.Arr.opaque() || y.Arr.opaque() {
			return in.strEq(in.bytesToStr(x), in.bytesToStr(y)), true
		}
		if x.Len != y.Len {
			return in.ts.False, true
		}
		r := in.ts.True
		for i := 0; i < x.Len; i++ {
			r = in.ts.And(r, in.ts.Eq(x.Arr.V[x.Off+i].(*Term), y.Arr.V[y.Off+i].(*Term)))
		}
		return r, true
	})
	vf("vfClockNow", func(in *Interp, th *Thread, fn *ssa.Function, a []Value) (Value, bool) {
		// freezes the clock at a fresh symbolic second and returns it (natively: the real clock)
		t := in.fresh("now", "clock", BV(64))
		in.assume(in.ts.And(in.ts.Cmp(OSLe, in.i64(1000000000), t), in.ts.Cmp(OSLe, t, in.i64(3000000000))))
		in.clockFrozen = t
		return t, true
	})
	vf("vfFreezeClock", func(in *Interp, th *Thread, fn *ssa.Function, a []Value) (Value, bool) {
		// every clock reading returns sec until vfUnfreezeClock
		in.clockFrozen = in.asTerm(a[0])
		return nil, true
	})
	vf("vfUnfreezeClock", func(in *Interp, th *Thread, fn *ssa.Function, a []Value) (Value, bool) {
		in.clock = in.clockFrozen
		in.clockFrozen = nil
		return nil, true
	})
	vf("vfIsSymbolic", func(in *Interp, th *Thread, fn *ssa.Function, a []Value) (Value, bool) {
		return in.ts.True, true
	})
}

// assume adds c to the path condition; an infeasible assumption ends the path silently.
func (in *Interp) assume(c *Term) {
	if c.IsTrue() {
		return
	}
	if c.IsFalse() {
		panic(pathEnd{Verdict{Kind: "ASSUME"}})
	}
	if !in.branchAssume(c) {
		panic(pathEnd{Verdict{Kind: "ASSUME"}})
	}
}

// branchAssume: like branch but the false side is never explored.
func (in *Interp) branchAssume(c *Term) bool {
	p := in.path
	i := len(p.taken)
	if i < len(p.prefix) {
		d := p.prefix[i]
		p.taken = append(p.taken, d)
		if d.D == 1 {
			in.assert(c)
		}
		return d.D == 1
	}
	ok := in.feasible(c)
	if ok {
		p.taken = append(p.taken, dec{D: 1, N: 1})
		in.assert(c)
	} else {
		p.taken = append(p.taken, dec{D: 0, N: 1})
	}
	return ok
}

// ---------------------------------------------------------------------------
// time

const unixToInternal = 62135596800

func (in *Interp) now() *Term {
	if in.clockFrozen != nil {
		return in.clockFrozen
	}
	if in.clockForce != nil {
		t := in.clockForce
		in.clockForce = nil
		if in.clock != nil {
			in.assume(in.ts.Cmp(OSLe, in.clock, t))
		}
		in.clock = t
		return t
	}
	t := in.fresh("clock", "clock", BV(64))
	lo := in.i64(1000000000)
	if in.clock != nil {
		lo = in.clock
	}
	in.assume(in.ts.And(in.ts.Cmp(OSLe, lo, t), in.ts.Cmp(OSLe, t, in.i64(4000000000))))
	in.clock = t
	return t
}

func (in *Interp) timeValue(sec *Term) Value {
	return &Agg{V: []Value{in.ts.BVConst(64, 0), in.ts.Bin(OAdd, sec, in.i64(unixToInternal)), Ptr{}}}
}

func init() {
	reg(`time.Now`, func(in *Interp, th *Thread, fn *ssa.Function, a []Value) (Value, bool) {
		return in.timeValue(in.now()), true
	})
	reg(`time.Sleep`, func(in *Interp, th *Thread, fn *ssa.Function, a []Value) (Value, bool) {
		in.syncPoint(th, "sleep")
		return nil, true
	})
	reg(`time.After`, func(in *Interp, th *Thread, fn *ssa.Function, a []Value) (Value, bool) {
		t := in.newTimer(in.asTerm(a[0]), false)
		return ChanV{t.ch}, true
	})
	reg(`time.Since`, func(in *Interp, th *Thread, fn *ssa.Function, a []Value) (Value, bool) {
		// elapsed time on the monotonic clock, used only for metrics and slow-operation warnings in
		// the code under test: concretised to 0 (the warning-log branches are not explored; multiplying
		// clock readings by 1e9 is a solver blow-up)
		return in.i64(0), true
	})
	reg(`(time.Duration).Seconds (time.Duration).Minutes (time.Duration).Hours`, func(in *Interp, th *Thread, fn *ssa.Function, a []Value) (Value, bool) {
		return in.ts.UF("dur_"+fn.Name(), F64Sort, in.asTerm(a[0])), true
	})
	mkTimer := func(periodic bool) intrinsic {
		return func(in *Interp, th *Thread, fn *ssa.Function, a []Value) (Value, bool) {
			t := in.newTimer(in.asTerm(a[0]), periodic)
			rt := fn.Signature.Results().At(0).Type() // *time.Timer / *time.Ticker
			st := in.zero(derefType(rt)).(*Agg)
			st.V[0] = ChanV{t.ch}
			cell := &Agg{V: []Value{st}}
			in.timerObjs[cell] = t
			return Ptr{Base: cell}, true
		}
	}
	reg(`time.NewTimer`, mkTimer(false))
	reg(`time.NewTicker`, mkTimer(true))
	reg(`time.Tick`, func(in *Interp, th *Thread, fn *ssa.Function, a []Value) (Value, bool) {
		t := in.newTimer(in.asTerm(a[0]), true)
		return ChanV{t.ch}, true
	})
	reg(`(*time.Timer).Stop (*time.Ticker).Stop`, func(in *Interp, th *Thread, fn *ssa.Function, a []Value) (Value, bool) {
		p := a[0].(Ptr)
		if t, ok := in.timerObjs[p.Base]; ok {
			was := !t.fired && !t.stopped
			t.stopped = true
			if fn.Signature.Results().Len() == 1 {
				return in.ts.Bool(was), true
			}
			return nil, true
		}
		panic(abortf("Stop on unknown timer"))
	})
	reg(`(*time.Timer).Reset (*time.Ticker).Reset`, func(in *Interp, th *Thread, fn *ssa.Function, a []Value) (Value, bool) {
		p := a[0].(Ptr)
		if t, ok := in.timerObjs[p.Base]; ok {
			was := !t.fired && !t.stopped
			t.stopped = false
			t.fired = false
			if fn.Signature.Results().Len() == 1 {
				return in.ts.Bool(was), true
			}
			return nil, true
		}
		panic(abortf("Reset on unknown timer"))
	})
}

// ---------------------------------------------------------------------------
// sync, sync/atomic

func init() {
	reg(`(*sync.Mutex).Lock`, func(in *Interp, th *Thread, fn *ssa.Function, a []Value) (Value, bool) {
		in.mutexLock(th, a[0].(Ptr), "Lock")
		return nil, true
	})
	reg(`(*sync.Mutex).Unlock`, func(in *Interp, th *Thread, fn *ssa.Function, a []Value) (Value, bool) {
		in.mutexUnlock(th, a[0].(Ptr))
		return nil, true
	})
	reg(`(*sync.Mutex).TryLock (*sync.RWMutex).TryLock`, func(in *Interp, th *Thread, fn *ssa.Function, a []Value) (Value, bool) {
		ls := in.lockOf(a[0].(Ptr))
		if ls.writer != nil || ls.nread > 0 {
			return in.ts.False, true
		}
		ls.writer = th
		th.held++
		return in.ts.True, true
	})
	reg(`(*sync.RWMutex).Lock`, func(in *Interp, th *Thread, fn *ssa.Function, a []Value) (Value, bool) {
		in.mutexLock(th, a[0].(Ptr), "Lock")
		return nil, true
	})
	reg(`(*sync.RWMutex).Unlock`, func(in *Interp, th *Thread, fn *ssa.Function, a []Value) (Value, bool) {
		in.mutexUnlock(th, a[0].(Ptr))
		return nil, true
	})
	reg(`(*sync.RWMutex).RLock`, func(in *Interp, th *Thread, fn *ssa.Function, a []Value) (Value, bool) {
		in.mutexRLock(th, a[0].(Ptr))
		return nil, true
	})
	reg(`(*sync.RWMutex).RUnlock`, func(in *Interp, th *Thread, fn *ssa.Function, a []Value) (Value, bool) {
		in.mutexRUnlock(th, a[0].(Ptr))
		return nil, true
	})
	// WaitGroup: counter kept in a side table
	reg(`(*sync.WaitGroup).Add`, func(in *Interp, th *Thread, fn *ssa.Function, a []Value) (Value, bool) {
		p := a[0].(Ptr)
		k := lockKey{p.Base, p.Idx}
		in.wg[k] += int(in.concreteInt(a[1], true, "wg.Add"))
		if in.wg[k] < 0 {
			in.goPanic(th, "negative WaitGroup counter", "sync: negative WaitGroup counter")
		}
		in.syncPoint(th, "wg.add")
		return nil, true
	})
	reg(`(*sync.WaitGroup).Done`, func(in *Interp, th *Thread, fn *ssa.Function, a []Value) (Value, bool) {
		p := a[0].(Ptr)
		k := lockKey{p.Base, p.Idx}
		in.wg[k]--
		if in.wg[k] < 0 {
			in.goPanic(th, "negative WaitGroup counter", "sync: negative WaitGroup counter")
		}
		in.syncPoint(th, "wg.done")
		return nil, true
	})
	reg(`(*sync.WaitGroup).Wait`, func(in *Interp, th *Thread, fn *ssa.Function, a []Value) (Value, bool) {
		p := a[0].(Ptr)
		k := lockKey{p.Base, p.Idx}
		if in.wg[k] > 0 {
			panic(blockSignal{why: "WaitGroup.Wait", cond: func() bool { return in.wg[k] == 0 }})
		}
		return nil, true
	})
	reg(`(*sync.Once).Do`, func(in *Interp, th *Thread, fn *ssa.Function, a []Value) (Value, bool) {
		p := a[0].(Ptr)
		k := lockKey{p.Base, p.Idx}
		if in.once[k] {
			return nil, true
		}
		in.once[k] = true
		in.callValue(th, a[1].(FuncV), nil, -1, false, nil)
		return nil, true
	})

	// atomics on plain integers
	atomLoad := func(in *Interp, th *Thread, fn *ssa.Function, a []Value) (Value, bool) {
		in.atomicAccess = true
		defer func() { in.atomicAccess = false }()
		in.hbAcquire(th, slotKey{agg: a[0].(Ptr).Base, idx: a[0].(Ptr).Idx})
		v := in.load(a[0].(Ptr))
		in.syncPoint(th, "atomic")
		return v, true
	}
	atomStore := func(in *Interp, th *Thread, fn *ssa.Function, a []Value) (Value, bool) {
		in.atomicAccess = true
		defer func() { in.atomicAccess = false }()
		in.hbAcquire(th, slotKey{agg: a[0].(Ptr).Base, idx: a[0].(Ptr).Idx})
		defer in.hbRelease(th, slotKey{agg: a[0].(Ptr).Base, idx: a[0].(Ptr).Idx})
		in.store(a[0].(Ptr), a[1])
		in.syncPoint(th, "atomic")
		return nil, true
	}
	atomAdd := func(in *Interp, th *Thread, fn *ssa.Function, a []Value) (Value, bool) {
		in.atomicAccess = true
		defer func() { in.atomicAccess = false }()
		in.hbAcquire(th, slotKey{agg: a[0].(Ptr).Base, idx: a[0].(Ptr).Idx})
		defer in.hbRelease(th, slotKey{agg: a[0].(Ptr).Base, idx: a[0].(Ptr).Idx})
		p := a[0].(Ptr)
		v := in.ts.Bin(OAdd, in.asTerm(in.load(p)), in.asTerm(a[1]))
		in.store(p, v)
		in.syncPoint(th, "atomic")
		return v, true
	}
	atomSwap := func(in *Interp, th *Thread, fn *ssa.Function, a []Value) (Value, bool) {
		in.atomicAccess = true
		defer func() { in.atomicAccess = false }()
		in.hbAcquire(th, slotKey{agg: a[0].(Ptr).Base, idx: a[0].(Ptr).Idx})
		defer in.hbRelease(th, slotKey{agg: a[0].(Ptr).Base, idx: a[0].(Ptr).Idx})
		p := a[0].(Ptr)
		old := in.load(p)
		in.store(p, a[1])
		in.syncPoint(th, "atomic")
		return old, true
	}
	atomCAS := func(in *Interp, th *Thread, fn *ssa.Function, a []Value) (Value, bool) {
		in.atomicAccess = true
		defer func() { in.atomicAccess = false }()
		in.hbAcquire(th, slotKey{agg: a[0].(Ptr).Base, idx: a[0].(Ptr).Idx})
		defer in.hbRelease(th, slotKey{agg: a[0].(Ptr).Base, idx: a[0].(Ptr).Idx})
		p := a[0].(Ptr)
		cur := in.load(p)
		eq := in.valEq(cur, a[1])
		if in.branch(eq, "cas") {
			in.store(p, a[2])
			in.syncPoint(th, "atomic")
			return in.ts.True, true
		}
		in.syncPoint(th, "atomic")
		return in.ts.False, true
	}
	reg(`sync/atomic.LoadInt32 sync/atomic.LoadInt64 sync/atomic.LoadUint32 sync/atomic.LoadUint64 sync/atomic.LoadUintptr sync/atomic.LoadPointer`, atomLoad)
	reg(`sync/atomic.StoreInt32 sync/atomic.StoreInt64 sync/atomic.StoreUint32 sync/atomic.StoreUint64 sync/atomic.StoreUintptr sync/atomic.StorePointer`, atomStore)
	reg(`sync/atomic.AddInt32 sync/atomic.AddInt64 sync/atomic.AddUint32 sync/atomic.AddUint64 sync/atomic.AddUintptr`, atomAdd)
	reg(`sync/atomic.SwapInt32 sync/atomic.SwapInt64 sync/atomic.SwapUint32 sync/atomic.SwapUint64 sync/atomic.SwapPointer`, atomSwap)
	reg(`sync/atomic.CompareAndSwapInt32 sync/atomic.CompareAndSwapInt64 sync/atomic.CompareAndSwapUint32 sync/atomic.CompareAndSwapUint64 sync/atomic.CompareAndSwapPointer`, atomCAS)
	// typed atomics: struct {_ noCopy; [_ align64]; v T}; the value is the last field
	field := func(p Ptr) Ptr {
		st := p.Base.V[p.Idx].(*Agg)
		return Ptr{Base: st, Idx: len(st.V) - 1}
	}
	for _, ty := range []string{"Int32", "Int64", "Uint32", "Uint64", "Uintptr"} {
		t := "(*sync/atomic." + ty + ")."
		reg(t+"Load", func(in *Interp, th *Thread, fn *ssa.Function, a []Value) (Value, bool) {
			return atomLoad(in, th, fn, []Value{field(a[0].(Ptr))})
		})
		reg(t+"Store", func(in *Interp, th *Thread, fn *ssa.Function, a []Value) (Value, bool) {
			return atomStore(in, th, fn, []Value{field(a[0].(Ptr)), a[1]})
		})
		reg(t+"Add", func(in *Interp, th *Thread, fn *ssa.Function, a []Value) (Value, bool) {
			return atomAdd(in, th, fn, []Value{field(a[0].(Ptr)), a[1]})
		})
		reg(t+"Swap", func(in *Interp, th *Thread, fn *ssa.Function, a []Value) (Value, bool) {
			return atomSwap(in, th, fn, []Value{field(a[0].(Ptr)), a[1]})
		})
		reg(t+"CompareAndSwap", func(in *Interp, th *Thread, fn *ssa.Function, a []Value) (Value, bool) {
			return atomCAS(in, th, fn, []Value{field(a[0].(Ptr)), a[1], a[2]})
		})
	}
	reg(`(*sync/atomic.Bool).Load`, func(in *Interp, th *Thread, fn *ssa.Function, a []Value) (Value, bool) {
		v := in.asTerm(in.load(field(a[0].(Ptr))))
		return in.ts.Not(in.ts.Eq(v, in.ts.BVConst(32, 0))), true
	})
	reg(`(*sync/atomic.Bool).Store`, func(in *Interp, th *Thread, fn *ssa.Function, a []Value) (Value, bool) {
		b := in.asTerm(a[1])
		in.store(field(a[0].(Ptr)), in.ts.Ite(b, in.ts.BVConst(32, 1), in.ts.BVConst(32, 0)))
		return nil, true
	})
	// atomic.Value: struct{ v any }
	reg(`(*sync/atomic.Value).Load`, func(in *Interp, th *Thread, fn *ssa.Function, a []Value) (Value, bool) {
		p := a[0].(Ptr)
		k := lockKey{p.Base, p.Idx}
		if v, ok := in.atomVals[k]; ok {
			return v, true
		}
		return Iface{}, true
	})
	reg(`(*sync/atomic.Value).Store`, func(in *Interp, th *Thread, fn *ssa.Function, a []Value) (Value, bool) {
		p := a[0].(Ptr)
		in.atomVals[lockKey{p.Base, p.Idx}] = a[1]
		in.syncPoint(th, "atomic")
		return nil, true
	})
	reg(`(*strings.Builder).copyCheck`, noop)
	reg(`internal/race.Enable internal/race.Disable internal/race.Acquire internal/race.Release internal/race.ReleaseMerge internal/race.Read internal/race.Write internal/race.ReadRange internal/race.WriteRange`, noop)
	reg(`context.Background context.TODO`, func(in *Interp, th *Thread, fn *ssa.Function, a []Value) (Value, bool) {
		return nil, false
	})
	// a goroutine-free AfterFunc is not needed; context.propagateCancel starts goroutines only for foreign parents
	reg(`internal/reflectlite.TypeOf reflect.TypeOf`, func(in *Interp, th *Thread, fn *ssa.Function, a []Value) (Value, bool) {
		return Iface{T: types.Typ[types.Invalid], V: Opaque{"reflect type"}}, true
	})
	reg(`runtime.Caller`, func(in *Interp, th *Thread, fn *ssa.Function, a []Value) (Value, bool) {
		return Tuple{Opaque{"pc"}, Str{S: "file.go"}, in.i64(1), in.ts.True}, true
	})
}

var _ = types.Typ

func (in *Interp) bytesToStr(x Slice) Str {
	if x.Arr != nil && x.Arr.Num != nil {
		return Str{Num: x.Arr.Num}
	}
	if x.Arr != nil && x.Arr.FloatOf != nil {
		return Str{FloatOf: x.Arr.FloatOf, S: "<float>"}
	}
	return in.mkStr(in.bytesOf(x))
}
