package sx

import (
	"fmt"
	"os"
	"runtime/debug"
	"sort"
	"strings"
	"sync"
	"time"

	"golang.org/x/tools/go/ssa"
)

// dec is one recorded decision of a path.
type dec struct {
	D   int32  // alternative taken (for branches: 1 true, 0 false)
	N   int32  // number of alternatives (2 for branches); 0 = forced (no alternatives)
	Val uint64 // for concretisations: the candidate value
}

type nondetVar struct {
	Name string
	T    *Term
	Kind string // "bool","byte","int64","uint64","choice","len","float64"
	Pub  string // harness-given name
	Conc int64  // for concrete choices (T == nil)
}

type pathState struct {
	prefix  []dec
	taken   []dec
	pc      []*Term
	vars    []nondetVar
	choices []int64 // replay vector entries in creation order (for vfChoice/len: concrete)
	newWork [][]dec
	inconclusive int
	names   map[string]*Term
	nameN   map[string]int
	reached map[string]bool
	lenient int
	inconcAt string
	decided map[*Term]bool // conditions already asserted on this path (true) or refuted (false)
	fless   map[*Term][]*Term // strict float order asserted on this path: a -> every b with (a < b) in pc
}

// flessReach: is a < b implied by the asserted float order facts (transitive closure; an asserted a < b
// also says neither is NaN, so IEEE '<' is transitive along the chain)?
func (p *pathState) flessReach(a, b *Term) bool {
	if len(p.fless) == 0 {
		return false
	}
	seen := map[*Term]bool{a: true}
	stack := []*Term{a}
	for len(stack) > 0 {
		x := stack[len(stack)-1]
		stack = stack[:len(stack)-1]
		for _, y := range p.fless[x] {
			if y == b {
				return true
			}
			if !seen[y] {
				seen[y] = true
				stack = append(stack, y)
			}
		}
	}
	return false
}

// floatOrderDecides: a float comparison whose outcome follows from the asserted order facts
func (p *pathState) floatOrderDecides(c *Term) (bool, bool) {
	switch c.Op {
	case OFLt:
		if p.flessReach(c.A[0], c.A[1]) {
			return true, true
		}
		if p.flessReach(c.A[1], c.A[0]) {
			return false, true
		}
	case OFLe:
		if p.flessReach(c.A[0], c.A[1]) {
			return true, true
		}
		if p.flessReach(c.A[1], c.A[0]) {
			return false, true
		}
	case OFEq:
		if p.flessReach(c.A[0], c.A[1]) || p.flessReach(c.A[1], c.A[0]) {
			return false, true
		}
	case ONot:
		if v, ok := p.floatOrderDecides(c.A[0]); ok {
			return !v, true
		}
	}
	return false, false
}

func (p *pathState) setDecided(c *Term, v bool) {
	if p.decided == nil {
		p.decided = map[*Term]bool{}
	}
	p.decided[c] = v
}

func (in *Interp) assert(t *Term) {
	if t.IsTrue() {
		return
	}
	in.path.pc = append(in.path.pc, t)
	in.solver.Assert(in.ts, t)
	if in.path.decided == nil {
		in.path.decided = map[*Term]bool{}
	}
	in.path.decided[t] = true
	if t.Op == ONot {
		in.path.decided[t.A[0]] = false
	}
	in.path.noteFloatOrder(t)
}

func (p *pathState) noteFloatOrder(t *Term) {
	switch t.Op {
	case OFLt:
		if p.fless == nil {
			p.fless = map[*Term][]*Term{}
		}
		p.fless[t.A[0]] = append(p.fless[t.A[0]], t.A[1])
	case OAnd:
		p.noteFloatOrder(t.A[0])
		p.noteFloatOrder(t.A[1])
	}
}

func (in *Interp) feasible(t *Term) bool {
	if time.Since(in.pathStart) > 90*time.Second {
		fn := ""
		if in.cur != nil && in.cur.top != nil {
			fn = userFrame(in.cur.top)
		}
		in.path.inconclusive++
		panic(pathEnd{Verdict{Kind: "INCONCLUSIVE", Label: "path wall-clock budget (slow solver queries)", Func: fn}})
	}
	r := in.solver.CheckWith(in.ts, t)
	if in.solver.Broken() {
		in.path.inconclusive++
		panic(pathEnd{Verdict{Kind: "INCONCLUSIVE", Label: "solver lost (hang watchdog)"}})
	}
	if r == Unknown {
		in.path.inconclusive++
		if in.cur != nil && in.cur.top != nil {
			in.path.inconcAt = userFrame(in.cur.top) + " " + in.posOf(in.cur.top)
		}
		return true
	}
	return r == Sat
}

// branch decides a symbolic condition; returns the side taken on this path.
func (in *Interp) branch(c *Term, why string) bool {
	if c.IsConst() {
		return c.C == 1
	}
	p := in.path
	if v, ok := p.decided[c]; ok {
		return v
	}
	if v, ok := p.floatOrderDecides(c); ok {
		return v
	}
	i := len(p.taken)
	if i < len(p.prefix) {
		d := p.prefix[i]
		p.taken = append(p.taken, d)
		if d.N != 0 {
			if d.D == 1 {
				in.assert(c)
			} else {
				in.assert(in.ts.Not(c))
			}
		} else {
			p.setDecided(c, d.D == 1)
		}
		return d.D == 1
	}
	if len(p.taken) >= in.cfg.MaxDecisions {
		panic(pathEnd{Verdict{Kind: "UNWIND", Label: "decision budget: " + why}})
	}
	ft := in.feasible(c)
	if !ft {
		p.taken = append(p.taken, dec{D: 0, N: 0})
		p.setDecided(c, false)
		return false
	}
	ff := in.feasible(in.ts.Not(c))
	if !ff {
		p.taken = append(p.taken, dec{D: 1, N: 0})
		p.setDecided(c, true)
		return true
	}
	alt := make([]dec, len(p.taken)+1)
	copy(alt, p.taken)
	alt[len(p.taken)] = dec{D: 0, N: 2}
	p.newWork = append(p.newWork, alt)
	p.taken = append(p.taken, dec{D: 1, N: 2})
	in.assert(c)
	if WhyHist != nil {
		w := why
		if in.cur != nil && in.cur.top != nil {
			w += " @ " + in.cur.top.fn.String()
		}
		whyMu.Lock()
		WhyHist[w]++
		whyMu.Unlock()
	}
	return true
}

var debugPaths = os.Getenv("GOSX_PATHS") != ""

// WhyHist (debugging): histogram of two-sided decisions by reason and function.
var WhyHist map[string]int
var whyMu sync.Mutex

func (in *Interp) branchAt(c *Term, site ssa.Instruction) bool {
	if c.IsConst() {
		return c.C == 1
	}
	if in.siteCount[site] >= in.cfg.Unwind && len(in.path.taken) >= len(in.path.prefix) {
		// this site has already forked Unwind times on this path: the loop is driven by an input value.
		// The verdict is raised before the next decision so that the path condition is "still looping".
		fn := ""
		if b := site.Block(); b != nil {
			fn = b.Parent().String()
		}
		panic(pathEnd{Verdict{Kind: "UNWIND", Label: "loop/branch site bound", Func: fn}})
	}
	n0 := len(in.path.taken)
	r := in.branch(c, "if")
	if len(in.path.taken) > n0 && in.path.taken[n0].N == 2 {
		in.siteCount[site]++
	}
	return r
}

// choose makes an unconstrained n-way choice.
func (in *Interp) choose(n int, why string) int {
	if n <= 1 {
		return 0
	}
	p := in.path
	i := len(p.taken)
	if i < len(p.prefix) {
		d := p.prefix[i]
		p.taken = append(p.taken, d)
		return int(d.D)
	}
	if len(p.taken) >= in.cfg.MaxDecisions {
		panic(pathEnd{Verdict{Kind: "UNWIND", Label: "decision budget: " + why}})
	}
	for k := n - 1; k >= 1; k-- {
		alt := make([]dec, len(p.taken)+1)
		copy(alt, p.taken)
		alt[len(p.taken)] = dec{D: int32(k), N: int32(n)}
		p.newWork = append(p.newWork, alt)
	}
	p.taken = append(p.taken, dec{D: 0, N: int32(n)})
	if WhyHist != nil {
		w := fmt.Sprintf("choose%d:%s", n, why)
		if in.cur != nil && in.cur.top != nil {
			w += " @ " + in.cur.top.fn.String()
		}
		whyMu.Lock()
		WhyHist[w]++
		whyMu.Unlock()
	}
	return 0
}

// concretize forks the path over the feasible values of t and returns the constant chosen.
func (in *Interp) concretize(t *Term, why string) *Term {
	if t.IsConst() {
		return t
	}
	p := in.path
	for tries := 0; ; tries++ {
		if tries > 4096 {
			panic(pathEnd{Verdict{Kind: "UNWIND", Label: "concretisation of " + why + " has too many values"}})
		}
		i := len(p.taken)
		var cand uint64
		if i < len(p.prefix) {
			cand = p.prefix[i].Val
		} else {
			// ask the solver for a value
			in.solver.define(in.ts, t)
			r, v := in.solver.CheckValue(t)
			if r != Sat {
				in.path.inconclusive++
				panic(pathEnd{Verdict{Kind: "INCONCLUSIVE", Label: "concretize " + why}})
			}
			cand = v
		}
		eq := in.ts.Eq(t, in.constLike(t, cand))
		if in.branchVal(eq, cand, why) {
			return in.constLike(t, cand)
		}
	}
}

func (in *Interp) constLike(t *Term, v uint64) *Term {
	switch t.Sort.K {
	case SBool:
		return in.ts.Bool(v != 0)
	case SBV:
		return in.ts.BVConst(int(t.Sort.W), v)
	case SF64:
		return in.ts.mk(OConst, F64Sort, nil, nil, nil, 0, v, "")
	}
	return in.ts.mk(OConst, F32Sort, nil, nil, nil, 0, v, "")
}

// branchVal is branch with a recorded candidate value (used by concretize).
func (in *Interp) branchVal(c *Term, val uint64, why string) bool {
	p := in.path
	i := len(p.taken)
	if i < len(p.prefix) {
		d := p.prefix[i]
		p.taken = append(p.taken, d)
		if d.D == 1 {
			in.assert(c)
		} else {
			in.assert(in.ts.Not(c))
		}
		return d.D == 1
	}
	if len(p.taken) >= in.cfg.MaxDecisions {
		panic(pathEnd{Verdict{Kind: "UNWIND", Label: "decision budget: " + why}})
	}
	// c is feasible by construction (value came from a model)
	ff := in.feasible(in.ts.Not(c))
	if ff {
		alt := make([]dec, len(p.taken)+1)
		copy(alt, p.taken)
		alt[len(p.taken)] = dec{D: 0, N: 2, Val: val}
		p.newWork = append(p.newWork, alt)
	}
	p.taken = append(p.taken, dec{D: 1, N: 2, Val: val})
	in.assert(c)
	return true
}

// TermValue reads the model value of an arbitrary (already defined) term.
func (s *Solver) TermValue(t *Term) uint64 {
	if t.IsConst() {
		return t.C
	}
	s.send("(get-value (" + ref(t) + "))")
	txt := s.readSexp()
	toks := tokenize(txt)
	// ( ( ref value ) )
	if len(toks) < 4 {
		return 0
	}
	// the term reference is a single token (tN or var name)
	v, _ := parseValue(toks, 3, t.Sort)
	return v
}

// ---------------------------------------------------------------------------
// nondeterministic inputs

func (in *Interp) fresh(pub, kind string, s Sort) *Term {
	p := in.path
	n := p.nameN[pub]
	p.nameN[pub] = n + 1
	name := pub
	if n > 0 {
		name = fmt.Sprintf("%s.%d", pub, n)
	}
	smt := "v_" + sanitize(name)
	t := in.ts.Var(smt, s)
	p.vars = append(p.vars, nondetVar{Name: smt, T: t, Kind: kind, Pub: name})
	p.names[name] = t
	return t
}

func sanitize(s string) string {
	var sb strings.Builder
	for _, c := range s {
		switch {
		case c >= 'a' && c <= 'z', c >= 'A' && c <= 'Z', c >= '0' && c <= '9', c == '_', c == '.':
			sb.WriteRune(c)
		default:
			sb.WriteByte('_')
		}
	}
	return sb.String()
}

// ---------------------------------------------------------------------------
// running one path

type PathResult struct {
	Verdict  Verdict
	Model    map[string]uint64
	Vars     []nondetVar
	Taken    []dec
	NewWork  [][]dec
	Steps    int64
	Inconc   int
	Events   []string
	PCLen    int
	Funcs    map[string]bool
	Reached  map[string]bool
	InconcAt string
	Covered  string // known finding id covering the verdict, if any
	Lenient  int
}

func (in *Interp) resetPath(prefix []dec) {
	in.globals = map[*ssa.Global]*Agg{}
	in.poison = map[*Agg]string{}
	in.threads = nil
	in.locks = map[lockKey]*lockState{}
	in.lockOrd = nil
	in.steps = 0
	in.nextObj = 0
	in.clock = nil
	in.clockN = 0
	in.events = nil
	in.uuidN = 0
	in.concurrent = false
	in.maxPreempt = 2
	in.timersFire = false
	in.mapOrder = false
	in.siteCount = map[ssa.Instruction]int{}
	in.allocCap = 512*1024*1024 + 1024
	in.stubs = map[string]FuncV{}
	in.path = &pathState{prefix: prefix, names: map[string]*Term{}, nameN: map[string]int{}, reached: map[string]bool{}}
	in.fnSeen = map[string]bool{}
	in.timers = nil
	in.timerObjs = map[*Agg]*vtimer{}
	in.timerFires = 0
	in.maxTimerFires = 0
	in.preempts = 0
	in.hashUF = false
	in.vnow = 0
	in.lockHist = nil
	in.eagerSmallRem = true
	in.inPure = false
	in.accesses = map[slotKey][]accessRec{}
	in.syncVC = map[interface{}]vclock{}
	in.atomicAccess = false
	in.pureTabs = map[string][]*Term{}
	in.pureTabsAgg = map[string]*Agg{}
	in.crcTop = false
	in.pools = map[lockKey][]Value{}
	in.ts.noGauss = false
	in.solver.SoftMs = 0
	in.crcTerms = map[*Term]bool{}
	in.lockTrace = false
	in.raceCheck = false
	in.clockForce = nil
	in.clockFrozen = nil
	in.wg = map[lockKey]int{}
	in.once = map[lockKey]bool{}
	in.atomVals = map[lockKey]Value{}
}

// RunPath executes the harness function along the decision prefix.
func (in *Interp) RunPath(fn *ssa.Function, prefix []dec, kf *KnownFindings, harness string) (res PathResult) {
	in.resetPath(prefix)
	in.pathStart = time.Now()
	if len(in.ts.tab) > 1500000 {
		in.ts = NewTermStore()
	}
	if in.solver.Broken() {
		in.solver.Restart()
	}
	in.solver.Push()
	in.extraScopes = 0
	defer func() {
		if in.solver.Broken() {
			in.solver.Restart()
			return
		}
		for ; in.extraScopes > 0; in.extraScopes-- {
			in.solver.send("(pop 1)")
		}
		in.solver.Pop()
	}()
	main := &Thread{id: 0}
	in.threads = []*Thread{main}
	in.cur = main
	finish := func(v Verdict) {
		res.Verdict = v
		res.Vars = in.path.vars
		res.Taken = in.path.taken
		res.NewWork = in.path.newWork
		res.Steps = in.steps
		res.Inconc = in.path.inconclusive
		res.InconcAt = in.path.inconcAt
		res.Events = in.events
		res.PCLen = len(in.path.pc)
		res.Funcs = in.fnSeen
		res.Reached = in.path.reached
		res.Lenient = in.path.lenient
		switch v.Kind {
		case "OK", "ASSUME", "ABORT":
		default:
			// is the violating region covered by a listed known finding?
			if cov, ok := in.covered(kf, harness, v); ok {
				res.Covered = cov
				return
			}
			if v.Kind == "UNWIND" || v.Kind == "ALLOC" {
				pushed := in.pushExtremes()
				if v.Kind == "UNWIND" && pushed == 0 && in.path.reached["opt:hangcheck"] && v.Label == "loop/branch site bound" {
					// no integer input can be made huge on this path: the loop is bounded by a guard in the
					// code, only longer than the unwinding bound. Outside the bound, not a hang.
					res.Verdict = Verdict{Kind: "ASSUME", Label: "loop bounded by a guard but longer than the unwinding bound (outside bound): " + v.Func}
					return
				}
			}
			// obtain a model of the path condition (outside every known-finding class)
			var vs []*Term
			for _, nv := range in.path.vars {
				if nv.T != nil {
					vs = append(vs, nv.T)
				}
			}
			in.solver.define2(in.ts, vs)
			if r, m := in.solver.CheckModel(vs); r == Sat {
				res.Model = m
			} else {
				res.Inconc++
			}
		}
	}
	func() {
		defer func() {
			if r := recover(); r != nil {
				switch e := r.(type) {
				case pathEnd:
					finish(e.v)
				case abortErr:
					finish(Verdict{Kind: "ABORT", Label: e.msg, Func: in.stackString()})
				default:
					where := ""
					if in.cur != nil && in.cur.top != nil {
						where = in.cur.top.fn.String() + " " + in.posOf(in.cur.top)
					}
					finish(Verdict{Kind: "ABORT", Label: fmt.Sprintf("engine panic: %v\n%s", r, debug.Stack()), Func: where})
				}
			}
		}()
		// run package initialisers for the harness package, then the harness
		if initFn := fn.Pkg.Func("init"); initFn != nil {
			in.pushFrame(main, initFn, nil, nil, -1, false)
			in.runUntil(main, nil)
		}
		main.done = false
		in.pushFrame(main, fn, nil, nil, -1, false)
		in.schedule()
		finish(Verdict{Kind: "OK"})
	}()
	return res
}

// runUntil runs thread th alone until its stack is empty.
func (in *Interp) runUntil(th *Thread, _ interface{}) {
	for th.top != nil {
		in.safeStep(th)
		if th.blocked != nil {
			panic(abortf("init blocked: %s", th.blocked.why))
		}
	}
}

func (in *Interp) safeStep(th *Thread) {
	defer func() {
		if r := recover(); r != nil {
			switch e := r.(type) {
			case panicSignal:
			case blockSignal:
				th.blocked = &e
			default:
				panic(r)
			}
		}
	}()
	in.stepThread(th)
}

// schedule runs threads until the main thread finishes.
func (in *Interp) schedule() {
	main := in.threads[0]
	for {
		th := in.cur
		if th.done || th.blocked != nil {
			if main.done {
				return
			}
			// pick another runnable thread
			next := in.pickRunnable(th)
			if next == nil {
				why := ""
				for _, t := range in.threads {
					if !t.done && t.blocked != nil {
						why += fmt.Sprintf("[t%d: %s]", t.id, t.blocked.why)
					}
				}
				fn := ""
				if main.top != nil {
					fn = userFrame(main.top)
				}
				panic(pathEnd{Verdict{Kind: "DEADLOCK", Label: why, Func: fn}})
			}
			in.cur = next
			continue
		}
		in.safeStep(th)
		if main.done {
			return
		}
	}
}

func (in *Interp) runnable(t *Thread) bool {
	if t.done {
		return false
	}
	if t.blocked == nil {
		return true
	}
	if t.blocked.cond() {
		return true
	}
	return false
}

func (in *Interp) pickRunnable(not *Thread) *Thread {
	var cands []*Thread
	for _, t := range in.threads {
		if in.runnable(t) {
			cands = append(cands, t)
		}
	}
	if len(cands) == 0 {
		// let virtual time pass: fire the earliest pending timer, if any
		if in.fireTimer() {
			return in.pickRunnable(not)
		}
		return nil
	}
	k := 0
	if in.concurrent && len(cands) > 1 {
		k = in.choose(len(cands), "sched")
	}
	t := cands[k]
	t.blocked = nil
	return t
}

func userFrame(fr *Frame) string {
	for f := fr; f != nil; f = f.caller {
		if f.fn.Pkg != nil {
			p := f.fn.Pkg.Pkg.Path()
			first := p
			if i := strings.Index(p, "/"); i >= 0 {
				first = p[:i]
			}
			if strings.Contains(first, ".") {
				return f.fn.String()
			}
		}
	}
	return fr.fn.String()
}

// define2 makes sure variables are declared (they may never have been used in an assertion).
func (s *Solver) define2(ts *TermStore, vs []*Term) {
	for _, v := range vs {
		s.define(ts, v)
	}
}

// ---------------------------------------------------------------------------
// exploring all paths of a harness with a pool of workers

type HarnessResult struct {
	Name       string
	Paths      int
	Verdicts   map[string]int
	Violations []PathResult // distinct by verdict string (first model kept), not covered
	Known      map[string]int
	VCount     map[string]int
	Alt        map[string][]PathResult // further paths with the same verdict (other counterexamples)
	Aborts     []PathResult
	Queries    int
	OneShots   int // queries re-run one-shot (fresh z3 + cvc5 processes) after the incremental core gave up
	OneShotOK  int // ... of which decided
	SolverTime time.Duration
	Steps      int64
	Inconc     int
	Unwinds    int
	Funcs      map[string]bool
	Reached    map[string]bool
	Samples    []string
	Wall       time.Duration
	Decisions  int
	Lenient    int
	Truncated  bool
	InconcAt   string
	NonTrivial int
}

type Explorer struct {
	P       *Program
	Cfg     *Config
	Workers int
	Known   *KnownFindings
	MaxPaths int
	Deadline time.Time
	Property string
}

func (ex *Explorer) Run(fn *ssa.Function) *HarnessResult {
	hr := &HarnessResult{Name: fn.Name(), Verdicts: map[string]int{}, Known: map[string]int{}, VCount: map[string]int{}, Alt: map[string][]PathResult{}, Funcs: map[string]bool{}, Reached: map[string]bool{}}
	t0 := time.Now()
	var mu sync.Mutex
	cond := sync.NewCond(&mu)
	work := [][]dec{nil}
	active := 0
	seenViol := map[string]bool{}
	stop := false
	var wg sync.WaitGroup
	for w := 0; w < ex.Workers; w++ {
		wg.Add(1)
		go func(w int) {
			defer wg.Done()
			solver, err := NewSolver(ex.Cfg.Solver, ex.Cfg.TimeoutMs)
			if err != nil {
				fmt.Fprintln(os.Stderr, "solver:", err)
				return
			}
			defer solver.Close()
			in := &Interp{P: ex.P, ts: NewTermStore(), solver: solver, cfg: ex.Cfg, property: ex.Property}
			for {
				mu.Lock()
				for len(work) == 0 && active > 0 && !stop {
					cond.Wait()
				}
				if stop || (len(work) == 0 && active == 0) {
					mu.Unlock()
					cond.Broadcast()
					break
				}
				item := work[len(work)-1]
				work = work[:len(work)-1]
				active++
				mu.Unlock()

				q0, t0 := solver.Queries, solver.Time
				o0, d0 := solver.OneShots, solver.OneShotDecided
				res := in.RunPath(fn, item, ex.Known, hr.Name)

				mu.Lock()
				if debugPaths {
					fmt.Fprintf(os.Stderr, "PATH %s: %s [%s] decisions=%d steps=%d\n", hr.Name, res.Verdict.String(), res.Verdict.Func, len(res.Taken), res.Steps)
				}
				active--
				hr.Paths++
				hr.Queries += solver.Queries - q0
				hr.OneShots += solver.OneShots - o0
				hr.OneShotOK += solver.OneShotDecided - d0
				hr.SolverTime += solver.Time - t0
				hr.Steps += res.Steps
				hr.Inconc += res.Inconc
				if res.InconcAt != "" {
					hr.InconcAt = res.InconcAt
				}
				hr.Decisions += len(res.Taken)
				hr.Lenient += res.Lenient
				for _, d := range res.Taken {
					if d.N >= 2 {
						hr.NonTrivial++
						break
					}
				}
				vs := res.Verdict.String()
				hr.Verdicts[res.Verdict.Kind]++
				for f := range res.Funcs {
					hr.Funcs[f] = true
				}
				for f := range res.Reached {
					hr.Reached[f] = true
				}
				switch res.Verdict.Kind {
				case "OK", "ASSUME":
				case "ABORT":
					if len(hr.Aborts) < 5 {
						hr.Aborts = append(hr.Aborts, res)
					}
				default:
					if res.Verdict.Kind == "UNWIND" {
						hr.Unwinds++
					}
					hr.VCount[vs]++
					if res.Covered != "" {
						hr.Known[res.Covered]++
					} else if !seenViol[vs] {
						seenViol[vs] = true
						hr.Violations = append(hr.Violations, res)
					} else if len(hr.Alt[vs]) < 6 && (hr.VCount[vs] < 40 || hr.VCount[vs]%7 == 0) {
						hr.Alt[vs] = append(hr.Alt[vs], res)
					}
				}
				if len(hr.Samples) < 6 && res.Verdict.Kind == "OK" && len(res.Vars) > 0 {
					hr.Samples = append(hr.Samples, describePath(&res))
				}
				work = append(work, res.NewWork...)
				if ex.MaxPaths > 0 && hr.Paths >= ex.MaxPaths || (!ex.Deadline.IsZero() && time.Now().After(ex.Deadline)) {
					if len(work) > 0 || active > 0 {
						hr.Truncated = true
					}
					stop = true
				}
				mu.Unlock()
				cond.Broadcast()
			}
		}(w)
	}
	wg.Wait()
	hr.Wall = time.Since(t0)
	sort.Slice(hr.Violations, func(i, j int) bool {
		return hr.Violations[i].Verdict.String() < hr.Violations[j].Verdict.String()
	})
	return hr
}

func describePath(r *PathResult) string {
	var sb strings.Builder
	fmt.Fprintf(&sb, "%s decisions=%d pc=%d vars=[", r.Verdict.String(), len(r.Taken), r.PCLen)
	for i, v := range r.Vars {
		if i > 0 {
			sb.WriteByte(' ')
		}
		if i > 12 {
			sb.WriteString("...")
			break
		}
		sb.WriteString(v.Pub)
	}
	sb.WriteString("]")
	return sb.String()
}

// covered decides whether every model of the violating path lies inside a listed known-finding class
// with the same site. Class-less findings cover the whole site. On "partly outside", the negated
// classes stay asserted so that the model reported is one no finding explains.
func (in *Interp) covered(kf *KnownFindings, harness string, v Verdict) (string, bool) {
	cands := kf.Candidates(in.property, harness, v)
	if len(cands) == 0 {
		return "", false
	}
	for _, f := range cands {
		if f.Class == "" {
			return f.What, true
		}
	}
	var vs []*Term
	for _, nv := range in.path.vars {
		if nv.T != nil {
			vs = append(vs, nv.T)
		}
	}
	in.solver.define2(in.ts, vs)
	for _, f := range cands {
		in.solver.send("(assert (not " + f.Class + "))")
	}
	switch in.solver.Check() {
	case Unsat:
		return cands[0].What, true
	case Unknown:
		in.path.inconclusive++
	}
	return "", false
}

func (in *Interp) stackString() string {
	if in.cur == nil || in.cur.top == nil {
		return ""
	}
	var sb strings.Builder
	n := 0
	for f := in.cur.top; f != nil && n < 10; f = f.caller {
		if n > 0 {
			sb.WriteString(" <- ")
		}
		sb.WriteString(f.fn.String() + " " + in.posOf(f))
		n++
	}
	return sb.String()
}

// pushExtremes: for a "loop/allocation driven by an input value" verdict, prefer a model in which the
// integer inputs are huge, so that the native replay shows the hang / allocation failure.
func (in *Interp) pushExtremes() int {
	pushed := 0
	for _, nv := range in.path.vars {
		if nv.T == nil || nv.Kind != "int64" {
			continue
		}
		in.solver.define(in.ts, nv.T)
		big := in.ts.Cmp(OSLt, in.i64(1<<40), nv.T)
		small := in.ts.Cmp(OSLt, nv.T, in.i64(-(1 << 40)))
		for _, c := range []*Term{big, small} {
			in.solver.define(in.ts, c)
			in.solver.send("(push 1)")
			in.solver.send("(assert " + ref(c) + ")")
			if in.solver.Check() == Sat {
				// keep this scope: the final Pop of the path scope removes it (one level accounted below)
				in.extraScopes++
				pushed++
				break
			}
			in.solver.send("(pop 1)")
		}
	}
	return pushed
}
