package main

import (
	"flag"
	"fmt"
	"os"
	"path/filepath"
	"regexp"
	"runtime"
	"sort"
	"strconv"
	"strings"
	"time"

	"gosx/sx"
)

func main() {
	if len(os.Args) < 2 {
		fmt.Fprintln(os.Stderr, "usage: gosx run|replay ...")
		os.Exit(2)
	}
	switch os.Args[1] {
	case "run":
		os.Exit(run(os.Args[2:]))
	case "replay":
		os.Exit(replay(os.Args[2:]))
	default:
		fmt.Fprintln(os.Stderr, "unknown subcommand", os.Args[1])
		os.Exit(2)
	}
}

// harness packages for a property: harness sub-directories containing "func VF_<ID>_".
func packagesFor(harnessDir, id string) ([]string, error) {
	var res []string
	seen := map[string]bool{}
	err := filepath.Walk(harnessDir, func(p string, info os.FileInfo, err error) error {
		if err != nil || info.IsDir() || !strings.HasSuffix(p, ".go") {
			return err
		}
		data, err := os.ReadFile(p)
		if err != nil {
			return err
		}
		if strings.Contains(string(data), "func VF_"+id+"_") {
			rel, _ := filepath.Rel(harnessDir, filepath.Dir(p))
			if !seen[rel] {
				seen[rel] = true
				res = append(res, rel)
			}
		}
		return nil
	})
	sort.Strings(res)
	return res, err
}

func run(args []string) int {
	fs := flag.NewFlagSet("run", flag.ExitOnError)
	repo := fs.String("repo", "/repo", "repository under test")
	hdir := fs.String("harness", "/verif/harness", "harness directory")
	prop := fs.String("property", "", "property id (e.g. C17)")
	tier := fs.String("tier", "quick", "quick|thorough")
	match := fs.String("match", "", "regexp restricting harness names")
	known := fs.String("known", "/verif/known_findings.json", "known findings file")
	evid := fs.String("evidence", "", "evidence file to write")
	replayDir := fs.String("replay-dir", "/verif/replay", "where counterexample files are written")
	workers := fs.Int("workers", runtime.NumCPU(), "worker count")
	solver := fs.String("solver", "z3-new", "z3-new (5.1.0, default) | z3 (4.8.12) | cvc5")
	timeout := fs.Int("qtimeout", 10000, "per-query timeout (ms)")
	maxPaths := fs.Int("max-paths", 0, "stop a harness after this many paths (0 = no limit)")
	budget := fs.Duration("budget", 0, "wall-clock budget per harness (0 = none)")
	noReplay := fs.Bool("no-replay", false, "do not run native replays")
	trace := fs.Bool("trace", false, "trace instructions")
	verbose := fs.Bool("v", false, "verbose")
	unwind := fs.Int("unwind", 40, "symbolic decisions per site per path")
	why := fs.Bool("why", false, "print a histogram of fork reasons")
	fs.Parse(args)
	if *why {
		sx.WhyHist = map[string]int{}
	}
	if *prop == "" {
		fmt.Fprintln(os.Stderr, "--property required")
		return 2
	}
	if t := os.Getenv("VERIF_TIER"); t == "quick" || t == "thorough" {
		*tier = t
	}
	seed := 0
	if s := os.Getenv("VERIF_SEED"); s != "" {
		seed, _ = strconv.Atoi(s)
	}
	t0 := time.Now()
	pkgs, err := packagesFor(*hdir, *prop)
	if err != nil || len(pkgs) == 0 {
		fmt.Fprintln(os.Stderr, "no harness packages for", *prop, err)
		return 2
	}
	scratch, _ := os.MkdirTemp("", "gosx")
	defer os.RemoveAll(scratch)
	opt := &sx.LoadOptions{Repo: *repo, HarnessDir: *hdir, Packages: pkgs, Scratch: scratch}
	P, err := sx.Load(opt)
	if err != nil {
		fmt.Fprintln(os.Stderr, "load:", err)
		return 2
	}
	loadT := time.Since(t0)
	kf, err := sx.LoadFindings(*known)
	if err != nil {
		fmt.Fprintln(os.Stderr, "known findings:", err)
		return 2
	}
	cfg := &sx.Config{MaxSteps: 3000000, Unwind: *unwind, MaxDecisions: 4000, MaxDepth: 200, TimeoutMs: *timeout, Solver: *solver, Trace: *trace}
	var re *regexp.Regexp
	if *match != "" {
		re = regexp.MustCompile(*match)
	}
	prefix := "VF_" + *prop + "_"
	rs := &sx.RunSummary{Property: *prop, Tier: *tier, Seed: seed, LoadTime: loadT, Opt: opt, Known: kf, ReplayDir: *replayDir, NoReplay: *noReplay, Verbose: *verbose, Solver: *solver}
	for _, fn := range P.Harnesses() {
		name := fn.Name()
		if !strings.HasPrefix(name, prefix) {
			continue
		}
		if *tier == "quick" && strings.HasSuffix(name, "_thorough") {
			continue
		}
		if *tier == "thorough" && strings.HasSuffix(name, "_quick") {
			continue
		}
		if re != nil && !re.MatchString(name) {
			continue
		}
		ex := &sx.Explorer{P: P, Cfg: cfg, Workers: *workers, Known: kf, MaxPaths: *maxPaths, Property: *prop}
		if *budget > 0 {
			ex.Deadline = time.Now().Add(*budget)
		}
		hr := ex.Run(fn)
		rs.Add(P, fn, hr)
	}
	if sx.WhyHist != nil {
		type kv struct {
			k string
			v int
		}
		var l []kv
		for k, v := range sx.WhyHist {
			l = append(l, kv{k, v})
		}
		sort.Slice(l, func(i, j int) bool { return l[i].v > l[j].v })
		for i, e := range l {
			if i < 25 {
				fmt.Printf("WHY %6d %s\n", e.v, e.k)
			}
		}
	}
	code := rs.Finish(time.Since(t0))
	if *evid != "" {
		if err := rs.WriteEvidence(*evid); err != nil {
			fmt.Fprintln(os.Stderr, "evidence:", err)
			return 2
		}
	}
	return code
}

func replay(args []string) int {
	fs := flag.NewFlagSet("replay", flag.ExitOnError)
	repo := fs.String("repo", "/repo", "repository under test")
	hdir := fs.String("harness", "/verif/harness", "harness directory")
	fs.Parse(args)
	if fs.NArg() < 1 {
		fmt.Fprintln(os.Stderr, "usage: gosx replay <file>")
		return 2
	}
	rf, err := sx.ReadReplay(fs.Arg(0))
	if err != nil {
		fmt.Fprintln(os.Stderr, err)
		return 2
	}
	abs, _ := filepath.Abs(fs.Arg(0))
	opt := &sx.LoadOptions{Repo: *repo, HarnessDir: *hdir}
	res, cmd, err := sx.NativeReplay(opt, rf.Package, rf.Harness, abs, 60*time.Second)
	fmt.Println(cmd)
	if err != nil {
		fmt.Fprintln(os.Stderr, err)
		return 2
	}
	fmt.Printf("symbolic verdict: %s\nnative result:    %s\n", rf.Verdict, res)
	if strings.HasPrefix(res, "OK") || res == "ASSUME" {
		return 0
	}
	return 1
}
