claim("C09",
 "Every list executor (LPUSH LPUSHX RPUSH RPUSHX LPOP RPOP LLEN LINDEX LRANGE LSET LREM LTRIM LPOS LMOVE) is executed symbolically from its SSA from an arbitrary valid pre-state (missing / list of 1..4 elements with symbolic 0..1-byte values built by the real constructors / wrong type) with full-range int64 numeric arguments; the solver shows reply == reference model, content == model, list invariant, emptied list removed, no lock left, for every value within the bounds (one-step inductive).",
 "bounds: lists <= 4 elements, element values 0..1 symbolic bytes, <= 2 pushed values, one command per harness; BLPOP/BRPOP timing and multi-step programs are covered only through the inductive step; stubs per DESIGN.md 2.4",
 "DESIGN.md 5 C09")
