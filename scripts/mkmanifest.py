#!/usr/bin/env python3
# Regenerates /verif/MANIFEST.json from the table below (claimed checks) + not_applicable for the rest.
import json
props=[json.loads(l) for l in open('/verif/properties.jsonl')]
CLAIMED={}
def claim(pid, text, note, design, technique="bounded symbolic execution of the real Go SSA (gosx) + SMT (z3) with native replay of counterexamples"):
    CLAIMED[pid]=dict(text=text,note=note,design=design,technique=technique)
exec(open('/verif/scripts/claims.py').read())
NA=json.load(open('/verif/scripts/not_applicable.json'))
checks=[]
for p in props:
    pid=p['id']
    if pid in CLAIMED:
        c=CLAIMED[pid]
        checks.append({
          "property_id":pid,
          "quick_cmd":f"scripts/check {pid} quick",
          "thorough_cmd":f"scripts/check {pid} thorough",
          "evidence_file":f"/verif/evidence/{pid}.json",
          "replay_cmd_template":"bin/gosx replay {path}",
          "engine":"gosx",
          "level_claimed":{"category":"model_checking","text":c['text'],"design_ref":c['design']},
          "level_note":c['note'],
          "technique":c['technique'],
        })
na=[{"property_id":p['id'],"reason":NA.get(p['id'],"check not built yet in this session; no other technique will be substituted")} for p in props if p['id'] not in CLAIMED]
m={
 "version":1,
 "setup_cmd":"cd /verif/engine && GOFLAGS=-mod=mod GOPROXY=off GOSUMDB=off GOTOOLCHAIN=local go build -o ../bin/gosx ./cmd/gosx",
 "hooks":{"guard":"verif","enable":"harnesses are overlay files (//go:build verif) injected through go/packages Overlay and `go test -tags verif -overlay`; /repo carries no hook code","baseline_off_cmd":"/verif/scripts/repotest","source_commits":[],"add_only":True},
 "engines":[{"name":"gosx","path":"/verif/engine","serves_properties":sorted(CLAIMED),"kind_free_text":"bounded symbolic executor for Go SSA (golang.org/x/tools/go/ssa) with SMT-LIB2 back end (z3 -in); counterexamples replayed natively via go test -overlay"}],
 "checks":checks,
 "notes":"All checks: bounded symbolic execution of /repo's current source, decided by z3; see DESIGN.md. Exit 0 = every obligation unsat or covered by a listed known finding; exit 1 + VIOLATION = solver model confirmed by native replay; exit 2 = machinery problem (never a verdict).",
 "not_applicable":na,
}
json.dump(m,open('/verif/MANIFEST.json','w'),indent=1)
print("claimed:",sorted(CLAIMED))
