#!/usr/bin/env python3
# Generates seeded/INDEX.md from seeded/*/meta.json
import json,glob,os
rows=[]
for d in sorted(glob.glob('/verif/seeded/*/')):
    m=json.load(open(d+'meta.json'))
    rows.append((os.path.basename(d[:-1]),m.get('property',''),m.get('what','').replace('\n',' ')[:160],m.get('needs','').replace('\n',' ')[:160],m.get('result','').replace('\n',' ')))
out=['# Seeded changes','','| id | property | change | needs | result of the registered check |','|---|---|---|---|---|']
for r in rows: out.append('| '+' | '.join(x.replace('|','/') for x in r)+' |')
det=sum(1 for r in rows if r[4].lower().startswith('detected'))
out+=['',f'{det} of {len(rows)} detected; the others are explained in their result field.']
open('/verif/seeded/INDEX.md','w').write('\n'.join(out)+'\n')
print(det,len(rows))
