#!/usr/bin/env python3
"""Translator validation (DESIGN.md 2.4 / 9.7): the repository's own unit tests are pushed through the
symbolic executor.

For every package listed below the package's *_test.go files are rewritten into ordinary (build tag
verif) source files - `*testing.T` becomes the shim `*vfT` - and one entry point
`VF_SELF_<TestName>` per test function asserts that the test does not fail. All inputs are concrete,
so each test is one path; a test that passes natively must pass under gosx. A failure that the native
replay does not reproduce (UNCONFIRMED) is a divergence between the executor's semantics and Go's: a
translator defect. Tests that use constructs outside the modelled set are reported as UNSUPPORTED.

The generated harness tree is rebuilt from /repo's current test files on every run
(/verif/.selftest, not committed).  usage: scripts/selftest.py [--repo /repo] [--match re] [pkgdir ...]
"""
import json, os, re, shutil, subprocess, sys, time

VERIF = '/verif'
PKGS = ['util', 'memdb', 'resp', 'server', 'raftexample',
        'etcd/raft', 'etcd/raft/quorum', 'etcd/raft/tracker', 'etcd/raft/confchange',
        'etcd/server/storage/wal', 'etcd/server/etcdserver/api/snap']

SHIM = '''//go:build verif

package PKG

// shim for *testing.T: the repository's tests run as ordinary functions under gosx
type vfTFatal struct{}
type vfT struct {
	failed  bool
	skipped bool
	first   string // format / first operand of the first failure report
	clean   []func()
}

func (t *vfT) note(args []interface{}) {
	if t.first == "" {
		t.first = "(message built by the test)" // the text itself may hold line breaks: not part of the label
	}
}
func (t *vfT) notef(f string) {
	if t.first == "" {
		t.first = f
	}
}

func (t *vfT) Error(args ...interface{})                 { t.note(args); t.failed = true }
func (t *vfT) Errorf(format string, args ...interface{}) { t.notef(format); t.failed = true }
func (t *vfT) Fail()                                     { t.failed = true }
func (t *vfT) FailNow()                                  { t.failed = true; panic(vfTFatal{}) }
func (t *vfT) Failed() bool                              { return t.failed }
func (t *vfT) Fatal(args ...interface{})                 { t.note(args); t.failed = true; panic(vfTFatal{}) }
func (t *vfT) Fatalf(format string, args ...interface{}) { t.notef(format); t.failed = true; panic(vfTFatal{}) }
func (t *vfT) Log(args ...interface{})                   {}
func (t *vfT) Logf(format string, args ...interface{})   {}
func (t *vfT) Helper()                                   {}
func (t *vfT) Parallel()                                 {}
func (t *vfT) Name() string                              { return "vfT" }
func (t *vfT) Skip(args ...interface{})                  { t.skipped = true; panic(vfTFatal{}) }
func (t *vfT) Skipf(format string, args ...interface{})  { t.skipped = true; panic(vfTFatal{}) }
func (t *vfT) SkipNow()                                  { t.skipped = true; panic(vfTFatal{}) }
func (t *vfT) Cleanup(f func())                          { t.clean = append(t.clean, f) }
func (t *vfT) Run(name string, f func(t *vfT)) bool {
	sub := &vfT{}
	vfRunT(sub, f)
	if sub.failed {
		t.failed = true
		t.notef(sub.first)
	}
	return !sub.failed
}

// the tests' own init functions set up what they need
func vfNativeSetup() {}

func vfRunT(t *vfT, f func(t *vfT)) {
	defer func() {
		for i := len(t.clean) - 1; i >= 0; i-- {
			t.clean[i]()
		}
	}()
	defer func() {
		if r := recover(); r != nil {
			if _, ok := r.(vfTFatal); !ok {
				panic(r)
			}
		}
	}()
	f(t)
}
'''


def transform(src, pkg):
    """*_test.go -> plain source using the shim; returns (text, [test names]) or (None, []) if not usable"""
    m = re.search(r'^package\s+(\w+)', src, re.M)
    if not m or m.group(1) != pkg:
        return None, []  # external test package
    if re.search(r'testing\.(B|M|F|TB|Short|Verbose|AllocsPerRun|Benchmark)\b', src):
        # keep it simple: drop benchmark / fuzz / TestMain functions, keep the rest
        src = re.sub(r'\nfunc (Benchmark|Fuzz)\w*\(\w+ \*testing\.[BF]\) \{\n.*?\n\}\n', '\n', src, flags=re.S)
        src = re.sub(r'\nfunc TestMain\(\w+ \*testing\.M\) \{\n.*?\n\}\n', '\n', src, flags=re.S)
        src = src.replace('testing.Short()', 'false').replace('testing.Verbose()', 'false')
        src = src.replace('testing.TB', '*vfT')
        if re.search(r'testing\.(B|M|F|AllocsPerRun|Benchmark)\b', src):
            return None, []
    src = src.replace('*testing.T', '*vfT')
    if 'testing.' in src:
        return None, []
    src = re.sub(r'^\s*"testing"\s*\n', '', src, flags=re.M)
    src = re.sub(r'^import "testing"\s*\n', '', src, flags=re.M)
    src = re.sub(r'^import \(\s*\)\s*\n', '', src, flags=re.M)
    tests = re.findall(r'^func (Test\w+)\(\w+ \*vfT\) \{', src, re.M)
    src = re.sub(r'^(//go:build .*\n)', '', src, flags=re.M)
    return '//go:build verif\n\n' + src, tests


def entries(pkgname, names):
    w = ['//go:build verif', '', 'package ' + pkgname, '']
    for n in names:
        w.append('func VF_SELF_%s() {\n\tvfFreezeClock(1700000000) // the tests read the clock and expect it not to move by a second\n\tt := &vfT{}\n\tvfOpt("timers", 64) // real time passes in the tests: a pending timer fires when every goroutine is blocked\n\tvfRunT(t, %s)\n\tvfAssert(!t.failed, "repo-test-%s-fails-under-gosx: "+t.first)\n}\n' % (n, n, n))
    return '\n'.join(w)


def main():
    repo = '/repo'
    match = ''
    args = sys.argv[1:]
    pk = []
    while args:
        a = args.pop(0)
        if a == '--repo':
            repo = args.pop(0)
        elif a == '--match':
            match = args.pop(0)
        else:
            pk.append(a)
    pkgs = pk or PKGS
    out = os.path.join(VERIF, '.selftest')
    shutil.rmtree(out, ignore_errors=True)
    hdir = os.path.join(out, 'harness')
    os.makedirs(hdir)
    shutil.copy(os.path.join(VERIF, 'harness', 'vflib.go.txt'), hdir)
    skipped_files = []
    total = {}
    for p in pkgs:
        d = os.path.join(repo, p)
        files = sorted(f for f in os.listdir(d) if f.endswith('_test.go'))
        pkgname = None
        for f in sorted(os.listdir(d)):
            if f.endswith('.go') and not f.endswith('_test.go'):
                mm = re.search(r'^package\s+(\w+)', open(os.path.join(d, f)).read(), re.M)
                if mm:
                    pkgname = mm.group(1)
                    break
        if not pkgname:
            continue
        od = os.path.join(hdir, p)
        os.makedirs(od)
        names = []
        for f in files:
            text, tests = transform(open(os.path.join(d, f)).read(), pkgname)
            if text is None:
                skipped_files.append(p + '/' + f)
                continue
            open(os.path.join(od, 'self_' + f.replace('_test.go', '.go')), 'w').write(text)
            open(os.path.join(od, 'HIDE'), 'a').write(f + '\n')
            names += tests
        open(os.path.join(od, 'self_shim.go'), 'w').write(SHIM.replace('package PKG', 'package ' + pkgname))
        open(os.path.join(od, 'self_entries.go'), 'w').write(entries(pkgname, names))
        total[p] = names
    res_dir = os.path.join(VERIF, 'selftest')
    os.makedirs(res_dir, exist_ok=True)
    env = dict(os.environ, GOFLAGS='-mod=mod', GOPROXY='off', GOSUMDB='off', GOTOOLCHAIN='local')
    results = {}
    t0 = time.time()
    for p in pkgs:
        if not total.get(p):
            continue
        # one run per package: a package whose rewritten tests do not compile must not hide the others
        one = os.path.join(out, 'h_' + p.replace('/', '_'))
        os.makedirs(one)
        shutil.copy(os.path.join(hdir, 'vflib.go.txt'), one)
        os.makedirs(os.path.join(one, p))
        for f in os.listdir(os.path.join(hdir, p)):  # files only: sub-packages have their own run
            if os.path.isfile(os.path.join(hdir, p, f)):
                shutil.copy(os.path.join(hdir, p, f), os.path.join(one, p, f))
        cmd = [os.environ.get('GOSX_BIN', os.path.join(VERIF, 'bin/gosx')), 'run', '--property', 'SELF', '--tier', 'quick',
               '--harness', one, '--repo', repo, '--budget', '120s', '--known', os.path.join(VERIF, 'known_findings.json'),
               '--evidence', os.path.join(out, 'ev.json'), '--replay-dir', os.path.join(out, 'replay')]
        if match:
            cmd += ['--match', match]
        dropped = []
        for attempt in range(12):
            pr = subprocess.run(cmd, env=env, stdout=subprocess.PIPE, stderr=subprocess.STDOUT, text=True, errors='replace')
            bad = set(re.findall(r'zz_vf_(self_\w+\.go):\d+', pr.stdout)) if 'load error' in pr.stdout else set()
            bad -= {'self_entries.go', 'self_shim.go'}
            bad = {b for b in bad if os.path.exists(os.path.join(one, p, b))}
            if not bad:
                # errors reported only against the entry file: a test whose file was dropped
                break
            # a rewritten test file that does not compile as ordinary source (testing/quick, datadriven
            # callbacks typed with *testing.T, ...): leave it out and say so
            for b in bad:
                orig = b[len('self_'):-3] + '_test.go'
                os.remove(os.path.join(one, p, b))
                dropped.append(p + '/' + orig)
                hide = os.path.join(one, p, 'HIDE')
                keep = [l for l in open(hide).read().split() if l != orig]
                open(hide, 'w').write('\n'.join(keep) + '\n')
            # regenerate the entry file for the tests that are left
            left = []
            for f in sorted(os.listdir(os.path.join(one, p))):
                if f.startswith('self_') and f not in ('self_entries.go', 'self_shim.go'):
                    left += re.findall(r'^func (Test\w+)\(\w+ \*vfT\) \{', open(os.path.join(one, p, f)).read(), re.M)
            total[p] = [n for n in total[p] if n in left]
            pkgname = re.search(r'^package\s+(\w+)', open(os.path.join(one, p, 'self_shim.go')).read(), re.M).group(1)
            open(os.path.join(one, p, 'self_entries.go'), 'w').write(entries(pkgname, total[p]))
        skipped_files += dropped
        open(os.path.join(out, 'log_' + p.replace('/', '_') + '.txt'), 'w').write(pr.stdout)
        seen = {}
        for line in pr.stdout.splitlines():
            m = re.match(r'harness (VF_SELF_\w+)\s+paths=(\d+).*? wall=[\d.]+s (.*)$', line)
            if m:
                seen[m.group(1)[8:]] = m.group(3).strip()
        mach = [l for l in pr.stdout.splitlines() if l.startswith('MACHINERY')]
        unconf = [l for l in pr.stdout.splitlines() if l.startswith('UNCONFIRMED')]
        conf = [l for l in pr.stdout.splitlines() if l.startswith('counterexample')]
        for n in total[p]:
            if match and not re.search(match, 'VF_SELF_' + n):
                continue
            v = seen.get(n)
            if v is None:
                st = 'NOT-RUN (package did not load: see log)' if pr.returncode == 2 and not seen else 'NOT-RUN'
            elif re.fullmatch(r'OK=\d+', v):
                st = 'OK'
            elif any(('harness=VF_SELF_' + n + ' ') in l for l in unconf):
                st = 'DIVERGES (gosx fails, native passes): ' + v
            elif any(('harness=VF_SELF_' + n + ' ') in l for l in conf):
                st = 'FAILS-NATIVELY-TOO: ' + v
            else:
                st = 'UNSUPPORTED: ' + v
            results[p + '.' + n] = st
        if pr.returncode == 2 and not seen:
            tail = [l for l in pr.stdout.splitlines() if l.strip()][-3:]
            results[p + '.(load)'] = 'LOAD-FAIL: ' + ' | '.join(tail)[:300]
    summary = {}
    for k, v in results.items():
        summary[v.split(':')[0].split(' ')[0]] = summary.get(v.split(':')[0].split(' ')[0], 0) + 1
    doc = {'repo': repo, 'wall_s': round(time.time() - t0, 1), 'summary': summary, 'skipped_files': skipped_files, 'results': results}
    json.dump(doc, open(os.path.join(res_dir, 'RESULT.json'), 'w'), indent=1)
    print(json.dumps(summary))
    for k, v in sorted(results.items()):
        if not v.startswith('OK'):
            print(k, '->', v[:200])
    div = [k for k, v in results.items() if v.startswith('DIVERGES')]
    return 1 if div else 0


if __name__ == '__main__':
    sys.exit(main())
